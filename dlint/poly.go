package main

// E3: polynomial value numbering.  Every integer-like SSA value of a function is
// normalised to a polynomial over symbols (parameters, field loads keyed by access
// path and reaching stores, len() of those, opaque calls, phis).  Two values are
// congruent when their normal forms are equal.  No path enumeration, no solver.

import (
	"fmt"
	"go/token"
	"go/types"
	"os"
	"runtime/debug"
	"sort"
	"strings"

	"golang.org/x/tools/go/ssa"
)

// Poly maps a monomial (sorted symbol names joined by '*', "" for the constant term)
// to its integer coefficient.
type Poly map[string]int64

func polyConst(c int64) Poly {
	if c == 0 {
		return Poly{}
	}
	return Poly{"": c}
}
func polySym(s string) Poly { return Poly{s: 1} }

func (p Poly) clone() Poly {
	q := Poly{}
	for k, v := range p {
		q[k] = v
	}
	return q
}

func (p Poly) Add(q Poly) Poly {
	r := p.clone()
	for k, v := range q {
		r[k] += v
		if r[k] == 0 {
			delete(r, k)
		}
	}
	return r
}

func (p Poly) Neg() Poly {
	r := Poly{}
	for k, v := range p {
		r[k] = -v
	}
	return r
}

func (p Poly) Sub(q Poly) Poly { return p.Add(q.Neg()) }

func mulMono(a, b string) string {
	if a == "" {
		return b
	}
	if b == "" {
		return a
	}
	parts := append(strings.Split(a, "*"), strings.Split(b, "*")...)
	sort.Strings(parts)
	return strings.Join(parts, "*")
}

func (p Poly) Mul(q Poly) Poly {
	r := Poly{}
	for k1, v1 := range p {
		for k2, v2 := range q {
			m := mulMono(k1, k2)
			r[m] += v1 * v2
			if r[m] == 0 {
				delete(r, m)
			}
		}
	}
	return r
}

func (p Poly) Equal(q Poly) bool {
	if len(p) != len(q) {
		return false
	}
	for k, v := range p {
		if q[k] != v {
			return false
		}
	}
	return true
}

// SplitLinear writes p as coef*sym + rest when p is linear in sym.
func (p Poly) SplitLinear(sym string) (coef, rest Poly, ok bool) {
	coef, rest = Poly{}, Poly{}
	for k, v := range p {
		var others []string
		n := 0
		if k != "" {
			for _, f := range strings.Split(k, "*") {
				if f == sym {
					n++
				} else {
					others = append(others, f)
				}
			}
		}
		switch n {
		case 0:
			rest[k] = v
		case 1:
			coef[strings.Join(others, "*")] = v
		default:
			return nil, nil, false
		}
	}
	return coef, rest, true
}

func (p Poly) IsZero() bool { return len(p) == 0 }

func (p Poly) IsConst() (int64, bool) {
	if len(p) == 0 {
		return 0, true
	}
	if len(p) == 1 {
		if v, ok := p[""]; ok {
			return v, true
		}
	}
	return 0, false
}

func (p Poly) String() string {
	if len(p) == 0 {
		return "0"
	}
	var ks []string
	for k := range p {
		ks = append(ks, k)
	}
	sort.Strings(ks)
	var sb strings.Builder
	for i, k := range ks {
		v := p[k]
		if i > 0 {
			if v >= 0 {
				sb.WriteString(" + ")
			} else {
				sb.WriteString(" - ")
				v = -v
			}
		} else if v < 0 {
			sb.WriteString("-")
			v = -v
		}
		switch {
		case k == "":
			fmt.Fprintf(&sb, "%d", v)
		case v == 1:
			sb.WriteString(k)
		default:
			fmt.Fprintf(&sb, "%d*%s", v, k)
		}
	}
	return sb.String()
}

// Symbols lists the symbols occurring in p.
func (p Poly) Symbols() []string {
	set := map[string]bool{}
	for k := range p {
		if k == "" {
			continue
		}
		for _, s := range strings.Split(k, "*") {
			set[s] = true
		}
	}
	var out []string
	for s := range set {
		out = append(out, s)
	}
	sort.Strings(out)
	return out
}

// ---- value -> polynomial -----------------------------------------------------------------

type PolyCtx struct {
	fn     *ssa.Function
	memo   map[ssa.Value]Poly
	stores []*ssa.Store
	ids    map[ssa.Value]int
	// guard mode (guards.go): parameter / free-variable roots are delimited (‹name›) so that
	// symbols can be re-rooted at call sites, slice elements get canonical symbols
	// elem(<slice>)[<index>], and every symbol remembers the SSA value it stands for.
	G              bool
	symVal         map[string]ssa.Value
	lenSymVal      map[string]ssa.Value // len(...) symbol -> the slice value it measures
	elemStored     map[string]bool
	loadMemo       map[*ssa.UnOp]Poly
	opArgs         map[string][]Poly
	copyMemo       map[*ssa.Alloc]*copyEntry
	storePaths     map[string]bool
	lenDepth       int
	res            *sccpResult // when set: the function is analysed under these constant assumptions
	busyStorePaths bool
	// LoadAt optionally pins the interpretation of loads: "entry" symbols for loads not reached by any store
}

func NewPolyCtx(fn *ssa.Function) *PolyCtx {
	c := &PolyCtx{fn: fn, memo: map[ssa.Value]Poly{}, ids: map[ssa.Value]int{}}
	Instrs(fn, func(in ssa.Instruction) {
		if s, ok := in.(*ssa.Store); ok {
			c.stores = append(c.stores, s)
		}
	})
	return c
}

func (c *PolyCtx) id(v ssa.Value) int {
	if n, ok := c.ids[v]; ok {
		return n
	}
	n := len(c.ids) + 1
	c.ids[v] = n
	return n
}

// accessPath renders an address as root.field.field..., resolving local struct copies
// (`stream := dsp.stream`) to the path they were copied from.
func (c *PolyCtx) accessPath(addr ssa.Value) (string, bool) {
	var fields []string
	v := addr
	for {
		switch x := v.(type) {
		case *ssa.FieldAddr:
			st := derefStruct(x.X.Type())
			if st == nil {
				return "", false
			}
			fields = append([]string{st.Field(x.Field).Name()}, fields...)
			v = x.X
			continue
		case *ssa.Field:
			st := derefStruct(x.X.Type())
			if st == nil {
				return "", false
			}
			fields = append([]string{st.Field(x.Field).Name()}, fields...)
			v = x.X
			continue
		case *ssa.UnOp:
			if x.Op == token.MUL {
				// a variable that lives in a cell only because a closure reads it (set once at
				// entry, never written again, here or in the closures): the value itself
				if a, isCell := x.X.(*ssa.Alloc); isCell {
					if val, ok := cellValue(a); ok {
						v = val
						continue
					}
				}
				// pointer loaded from somewhere: treat the loaded pointer as a root symbol
				if p, ok := c.accessPath(x.X); ok {
					return "(·" + p + ")" + joinFields(fields), true
				}
			}
			return "", false
		case *ssa.Parameter:
			return c.rootName(x) + joinFields(fields), true
		case *ssa.FreeVar:
			return c.rootName(x) + joinFields(fields), true
		case *ssa.Global:
			return "g:" + x.Name() + joinFields(fields), true
		case *ssa.Alloc:
			// local copy of a struct: one whole-value store, no field stores
			if src, ok := c.copiedFrom(x); ok {
				return src + joinFields(fields), true
			}
			return fmt.Sprintf("local%d:%s", c.id(x), x.Comment) + joinFields(fields), true
		case *ssa.IndexAddr:
			if c.G {
				if e, ok := c.elemPath(x); ok {
					return e + joinFields(fields), true
				}
			}
			return "", false
		case *ssa.Call, *ssa.Phi, *ssa.Extract, *ssa.MakeInterface, *ssa.TypeAssert, *ssa.Lookup:
			// a pointer obtained from a call etc.: an opaque but stable root
			return fmt.Sprintf("v%d:%s", c.id(v), v.Name()) + joinFields(fields), true
		default:
			return "", false
		}
	}
}

func joinFields(f []string) string {
	// embedded-struct hops are kept: both sides of a comparison go through the same hops
	if len(f) == 0 {
		return ""
	}
	return "." + strings.Join(f, ".")
}

// copiedFrom: the Alloc is initialised by exactly one store of a whole-struct load and
// none of its fields is stored to afterwards.
func (c *PolyCtx) copiedFrom(a *ssa.Alloc) (string, bool) {
	if c.copyMemo == nil {
		c.copyMemo = map[*ssa.Alloc]*copyEntry{}
	}
	if e, ok := c.copyMemo[a]; ok {
		if e.busy {
			return "", false
		}
		return e.path, e.ok
	}
	e := &copyEntry{busy: true}
	c.copyMemo[a] = e
	e.path, e.ok = c.copiedFrom1(a)
	e.busy = false
	return e.path, e.ok
}

type copyEntry struct {
	path string
	ok   bool
	busy bool
}

func (c *PolyCtx) copiedFrom1(a *ssa.Alloc) (string, bool) {
	var whole []*ssa.Store
	for _, ref := range *a.Referrers() {
		switch x := ref.(type) {
		case *ssa.Store:
			if x.Addr == ssa.Value(a) {
				whole = append(whole, x)
			}
		case *ssa.FieldAddr:
			// any store through a field address (possibly nested) disqualifies
			if c.addrStored(x) {
				return "", false
			}
		}
	}
	if len(whole) != 1 {
		return "", false
	}
	// the result of a call kept in a local (`x := find(...)` then x.f): the same object as the result
	switch rv := whole[0].Val.(type) {
	case *ssa.Call, *ssa.Extract:
		return c.accessPath(rv)
	}
	ld, ok := whole[0].Val.(*ssa.UnOp)
	if !ok || ld.Op != token.MUL {
		return "", false
	}
	return c.accessPath(ld.X)
}

func (c *PolyCtx) addrStored(v ssa.Value) bool {
	for _, ref := range *v.Referrers() {
		switch x := ref.(type) {
		case *ssa.Store:
			if x.Addr == v {
				return true
			}
		case *ssa.FieldAddr:
			if c.addrStored(x) {
				return true
			}
		}
	}
	return false
}

// storesTo lists stores that may write the location `path` (same path, a prefix of it
// — whole-struct store — or an extension of it).
func (c *PolyCtx) storesTo(path string) []*ssa.Store {
	var out []*ssa.Store
	for _, s := range c.stores {
		if a, isAlloc := s.Addr.(*ssa.Alloc); isAlloc {
			if _, copied := c.copiedFrom(a); copied {
				continue // the initialising store of a local struct copy is not a write of the source
			}
		}
		if addrHasIndex(s.Addr) && !strings.HasPrefix(path, "elem(") {
			continue // element stores only affect element paths
		}
		p, ok := c.accessPath(s.Addr)
		if !ok {
			continue
		}
		if p == path || strings.HasPrefix(path, p+".") || strings.HasPrefix(p, path+".") {
			out = append(out, s)
		}
	}
	return out
}

// loadSymbol names a load by its path and the set of stores that can reach it; a single
// dominating store of the exact path is forwarded (the load equals the stored value).
func (c *PolyCtx) loadPoly(ld *ssa.UnOp) Poly {
	if c.loadMemo == nil {
		c.loadMemo = map[*ssa.UnOp]Poly{}
	}
	if p, ok := c.loadMemo[ld]; ok {
		if os.Getenv("DLINT_DEBUG_REC") != "" && strings.HasPrefix(p.String(), "load#") {
			debug.PrintStack()
		}
		return p
	}
	c.loadMemo[ld] = polySym(fmt.Sprintf("load#%d", c.id(ld)))
	p := c.loadPoly1(ld)
	c.loadMemo[ld] = p
	return p
}

func (c *PolyCtx) loadPoly1(ld *ssa.UnOp) Poly {
	path, ok := c.accessPath(ld.X)
	if !ok {
		return polySym(fmt.Sprintf("load#%d", c.id(ld)))
	}
	var reach []*ssa.Store
	for _, s := range c.storesTo(path) {
		if InstrReaches(s, ld) {
			reach = append(reach, s)
		}
	}
	if len(reach) == 0 {
		return c.note(polySym(path), ld)
	}
	if len(reach) == 1 {
		s := reach[0]
		if p, _ := c.accessPath(s.Addr); p == path && InstrDominates(s, ld) && !InstrReaches(ld, s) {
			if isIntLike(s.Val.Type()) {
				return c.Of(s.Val)
			}
		}
	}
	var ids []string
	for _, s := range reach {
		ids = append(ids, fmt.Sprint(c.id(s.Val)+1000*c.id(s.Addr)))
	}
	sort.Strings(ids)
	// loads separated by one of the stores must not share a symbol: include the block-level position
	sep := ""
	for _, s := range reach {
		if InstrReaches(ld, s) {
			sep = fmt.Sprintf("@%d", c.id(ld))
		}
	}
	// ... except when the one store that can reach the load dominates it: inside a loop every pass
	// then goes through the store before the load, so all such loads of one pass read what that
	// pass stored (a local struct assigned at the top of the loop body and read field by field)
	if sep != "" && len(reach) == 1 && InstrDominates(reach[0], ld) {
		sep = fmt.Sprintf("@s%d", c.id(reach[0].Val)+1000*c.id(reach[0].Addr))
	}
	return c.note(polySym(path+"{"+strings.Join(ids, ",")+"}"+sep), ld)
}

// forwardedStore: the one store of exactly this path that dominates the load and is the
// only store reaching it.
func (c *PolyCtx) forwardedStore(ld *ssa.UnOp) *ssa.Store {
	path, ok := c.accessPath(ld.X)
	if !ok {
		return nil
	}
	var reach []*ssa.Store
	for _, s := range c.storesTo(path) {
		if InstrReaches(s, ld) {
			reach = append(reach, s)
		}
	}
	if len(reach) != 1 {
		return nil
	}
	s := reach[0]
	if p, _ := c.accessPath(s.Addr); p == path && InstrDominates(s, ld) && !InstrReaches(ld, s) {
		return s
	}
	return nil
}

// rootName renders a parameter / free variable as the root of a path.
func (c *PolyCtx) rootName(v ssa.Value) string {
	switch x := v.(type) {
	case *ssa.Parameter:
		if c.G {
			return "‹" + x.Name() + "›"
		}
		return x.Name()
	case *ssa.FreeVar:
		if c.G {
			return "‹^" + x.Name() + "›"
		}
		return "fv:" + x.Name()
	}
	return v.Name()
}

// note remembers which SSA value a single-symbol polynomial stands for (guard mode).
func (c *PolyCtx) note(p Poly, v ssa.Value) Poly {
	if c.G && len(p) == 1 {
		for k := range p {
			if k != "" {
				if c.symVal == nil {
					c.symVal = map[string]ssa.Value{}
				}
				if _, ok := c.symVal[k]; !ok {
					c.symVal[k] = v
				}
			}
		}
	}
	return p
}

// elemPath names an element address &X[i] canonically: elem(<X>)[<i>].  Only when the
// container is a parameter or is loaded from a path that is never stored to in this
// function, and no element of it is stored to in this function (else two loads of the
// "same" element are not congruent).
func (c *PolyCtx) elemPath(ia *ssa.IndexAddr) (string, bool) {
	if c.busyStorePaths {
		return "", false
	}
	c.ensureStorePaths()
	base, ok := c.rawSlicePath(ia.X)
	if !ok || c.elemStored[base] {
		return "", false
	}
	idx := strings.ReplaceAll(c.Of(ia.Index).String(), "*", "·")
	return "elem(" + base + ")[" + idx + "]", true
}

// rawSlicePath renders a container value without consulting reaching stores.
func (c *PolyCtx) rawSlicePath(v ssa.Value) (string, bool) {
	switch x := v.(type) {
	case *ssa.Parameter, *ssa.FreeVar:
		return c.rootName(v), true
	case *ssa.UnOp:
		if x.Op != token.MUL {
			return "", false
		}
		p, ok := c.accessPath(x.X)
		if !ok {
			return "", false
		}
		for sp := range c.storePaths {
			if sp == p || strings.HasPrefix(p, sp+".") || strings.HasPrefix(sp, p+".") {
				return "", false
			}
		}
		return p, true
	}
	return "", false
}

func (c *PolyCtx) ensureStorePaths() {
	if c.storePaths != nil {
		return
	}
	c.busyStorePaths = true
	sp := map[string]bool{}
	for _, s := range c.stores {
		if addrHasIndex(s.Addr) {
			continue
		}
		if p, ok := c.accessPath(s.Addr); ok {
			sp[p] = true
		}
	}
	c.storePaths = sp
	c.elemStored = map[string]bool{}
	c.busyStorePaths = false
	for _, s := range c.stores {
		a := s.Addr
		for {
			if fa, ok := a.(*ssa.FieldAddr); ok {
				a = fa.X
				continue
			}
			break
		}
		if ia2, ok := a.(*ssa.IndexAddr); ok {
			if b, ok := c.rawSlicePath(ia2.X); ok {
				c.elemStored[b] = true
			}
		}
	}
}

func isIntLike(t types.Type) bool {
	b, ok := t.Underlying().(*types.Basic)
	if !ok {
		return isTimeTime(t)
	}
	return b.Info()&types.IsInteger != 0
}

func isTimeTime(t types.Type) bool {
	n, ok := t.(*types.Named)
	return ok && n.Obj().Pkg() != nil && n.Obj().Pkg().Path() == "time" && n.Obj().Name() == "Time"
}

func intSize(t types.Type) int64 {
	b, ok := t.Underlying().(*types.Basic)
	if !ok {
		return 8
	}
	switch b.Kind() {
	case types.Int8, types.Uint8:
		return 1
	case types.Int16, types.Uint16:
		return 2
	case types.Int32, types.Uint32:
		return 4
	}
	return 8
}

// Of returns the polynomial of v.
func (c *PolyCtx) Of(v ssa.Value) Poly {
	if p, ok := c.memo[v]; ok {
		return p
	}
	c.memo[v] = polySym(fmt.Sprintf("rec#%d", c.id(v))) // recursion guard
	p := c.of(v)
	c.memo[v] = p
	return p
}

func (c *PolyCtx) opaque(kind string, v ssa.Value, args ...Poly) Poly {
	var as []string
	for _, a := range args {
		as = append(as, a.String())
	}
	if len(args) == 0 {
		// `*` separates the factors of a monomial: a callee name such as (*T).M must not contain it
		return c.note(polySym(fmt.Sprintf("%s#%d", strings.ReplaceAll(kind, "*", "·"), c.id(v))), v)
	}
	s := kind + "(" + strings.Join(as, ",") + ")"
	s = strings.ReplaceAll(s, "*", "·") // keep the monomial separator unambiguous
	if c.G {
		if c.opArgs == nil {
			c.opArgs = map[string][]Poly{}
		}
		c.opArgs[s] = args
	}
	return c.note(polySym(s), v)
}

func (c *PolyCtx) of(v ssa.Value) Poly {
	switch x := v.(type) {
	case *ssa.Const:
		if n, ok := constInt(x); ok {
			return polyConst(n)
		}
		return c.opaque("const", v)
	case *ssa.Parameter:
		return c.note(polySym(c.rootName(x)), v)
	case *ssa.FreeVar:
		return c.note(polySym(c.rootName(x)), v)
	case *ssa.BinOp:
		a, b := c.Of(x.X), c.Of(x.Y)
		switch x.Op {
		case token.ADD:
			if isIntLike(x.Type()) {
				return a.Add(b)
			}
		case token.SUB:
			if isIntLike(x.Type()) {
				return a.Sub(b)
			}
		case token.MUL:
			if isIntLike(x.Type()) {
				return a.Mul(b)
			}
		case token.SHL:
			if k, ok := b.IsConst(); ok && k >= 0 && k < 62 {
				return a.Mul(polyConst(1 << uint(k)))
			}
		}
		return c.opaque(x.Op.String(), v, a, b)
	case *ssa.UnOp:
		switch x.Op {
		case token.SUB:
			return c.Of(x.X).Neg()
		case token.MUL:
			return c.loadPoly(x)
		}
		return c.opaque("unop"+x.Op.String(), v, c.Of(x.X))
	case *ssa.Convert:
		if isIntLike(x.Type()) && isIntLike(x.X.Type()) {
			if intSize(x.Type()) < intSize(x.X.Type()) && !polyIgnoreNarrowing && !fitsNarrow(x.X, x.Type(), 0) {
				return c.opaque(fmt.Sprintf("narrow%d", intSize(x.Type())*8), v, c.Of(x.X))
			}
			return c.Of(x.X)
		}
		return c.opaque("conv:"+x.Type().String(), v, c.Of(x.X))
	case *ssa.ChangeType:
		return c.Of(x.X)
	case *ssa.Call:
		if b, ok := x.Call.Value.(*ssa.Builtin); ok {
			switch b.Name() {
			case "len":
				return c.lenOf(x.Call.Args[0])
			case "cap":
				return c.opaque("cap", v, c.sliceSym(x.Call.Args[0]))
			case "Sizeof":
				// not folded by the compiler front end inside an instantiated generic function
				if t := x.Call.Args[0].Type(); t != nil {
					if _, isTP := t.(*types.TypeParam); !isTP {
						return polyConst(types.SizesFor("gc", "amd64").Sizeof(t))
					}
				}
			case "max", "min":
				if c.G && isIntLike(x.Type()) {
					var as []Poly
					for _, a := range x.Call.Args {
						as = append(as, c.Of(a))
					}
					return c.opaque(b.Name(), v, as...)
				}
			}
		}
		if c.G {
			if callee := x.Call.StaticCallee(); callee != nil && isIntLike(x.Type()) {
				if kind := minMaxKind(callee); kind != "" {
					return c.opaque(kind, v, c.Of(x.Call.Args[0]), c.Of(x.Call.Args[1]))
				}
				// a pure arithmetic helper (one block, integer arithmetic on its parameters) is
				// evaluated in place, so that moving a formula into a helper changes nothing
				var as []Poly
				for _, a := range x.Call.Args {
					as = append(as, c.Of(a))
				}
				if p, ok := c.inlinePure(callee, as, 0); ok {
					return p
				}
			}
		}
		name := CalleeName(&x.Call)
		switch name {
		case "(time.Time).Add":
			return c.Of(x.Call.Args[0]).Add(c.Of(x.Call.Args[1]))
		case "(time.Time).Sub":
			return c.Of(x.Call.Args[0]).Sub(c.Of(x.Call.Args[1]))
		}
		return c.opaque("call:"+shortName(name), v)
	case *ssa.Field:
		if p, ok := c.accessPath(x); ok {
			return polySym(p)
		}
	case *ssa.Phi:
		// analysed for one call (constant arguments): the one way in that can run
		if c.res != nil && c.res.fn == x.Parent() {
			live := -1
			n := 0
			for i := range x.Edges {
				if c.res.EdgeExecutable(x.Block().Preds[i], x.Block()) {
					live = i
					n++
				}
			}
			if n == 1 {
				return c.Of(x.Edges[live])
			}
		}
		// a phi whose edges are all congruent is that value.  While the edges are evaluated
		// the phi already answers with its final opaque name, so that loop-carried
		// definitions (i = phi(0, i+1)) are expressed over it.
		op := c.opaque("phi", v)
		c.memo[v] = op
		var first Poly
		same := true
		for i, e := range x.Edges {
			p := c.Of(e)
			if i == 0 {
				first = p
			} else if !p.Equal(first) {
				same = false
			}
		}
		if same && first != nil {
			self := false
			for k := range op {
				if _, uses := first[k]; uses {
					self = true
				}
				for mono := range first {
					if strings.Contains(mono, k) {
						self = true
					}
				}
			}
			if !self {
				return first
			}
		}
		return op
	case *ssa.Extract:
		// one result of a pure arithmetic helper with several results, evaluated in place
		if call, ok := x.Tuple.(*ssa.Call); ok && isIntLike(x.Type()) {
			if callee := call.Call.StaticCallee(); callee != nil && isModuleFn(callee) {
				var as []Poly
				for _, a := range call.Call.Args {
					as = append(as, c.Of(a))
				}
				if p, ok := c.inlinePureN(callee, as, 0, x.Index); ok {
					return p
				}
			}
		}
		return c.opaque(fmt.Sprintf("extract%d", x.Index), v)
	}
	return c.opaque("v", v)
}

func shortName(n string) string {
	n = strings.ReplaceAll(n, modPath+"/", "")
	n = strings.ReplaceAll(n, modPath+".", "")
	return n
}

// sliceSym gives a canonical polynomial "name" for a slice value (used inside len()).
func (c *PolyCtx) sliceSym(v ssa.Value) Poly {
	switch x := v.(type) {
	case *ssa.UnOp:
		if x.Op == token.MUL {
			return c.loadPoly(x)
		}
	case *ssa.Parameter:
		return c.note(polySym(c.rootName(x)), v)
	case *ssa.FreeVar:
		if c.G {
			return c.note(polySym(c.rootName(x)), v)
		}
	}
	return c.opaque("slice", v)
}

// inlinePure evaluates the result of a single-block function that only does integer
// arithmetic on its parameters, with the given argument polynomials.
func (c *PolyCtx) inlinePure(fn *ssa.Function, args []Poly, depth int) (Poly, bool) {
	return c.inlinePureN(fn, args, depth, -1)
}

// inlinePureN: result number idx of a multi-result pure helper (idx < 0: the single result).
func (c *PolyCtx) inlinePureN(fn *ssa.Function, args []Poly, depth int, idx int) (Poly, bool) {
	if depth > 3 || fn == nil || len(fn.Blocks) != 1 || len(fn.Params) != len(args) || len(fn.FreeVars) > 0 {
		return nil, false
	}
	env := map[ssa.Value]Poly{}
	for i, prm := range fn.Params {
		if !isIntLike(prm.Type()) {
			return nil, false
		}
		env[prm] = args[i]
	}
	var eval func(v ssa.Value) (Poly, bool)
	eval = func(v ssa.Value) (Poly, bool) {
		if p, ok := env[v]; ok {
			return p, true
		}
		switch x := v.(type) {
		case *ssa.Const:
			if n, ok := constInt(x); ok {
				return polyConst(n), true
			}
		case *ssa.BinOp:
			a, ok1 := eval(x.X)
			b, ok2 := eval(x.Y)
			if !ok1 || !ok2 || !isIntLike(x.Type()) {
				return nil, false
			}
			switch x.Op {
			case token.ADD:
				return a.Add(b), true
			case token.SUB:
				return a.Sub(b), true
			case token.MUL:
				return a.Mul(b), true
			case token.QUO, token.REM:
				return c.opaque(x.Op.String(), x, a, b), true
			case token.SHL:
				if k, ok := b.IsConst(); ok && k >= 0 && k < 62 {
					return a.Mul(polyConst(1 << uint(k))), true
				}
			}
		case *ssa.Convert:
			if isIntLike(x.Type()) && isIntLike(x.X.Type()) && intSize(x.Type()) >= intSize(x.X.Type()) {
				return eval(x.X)
			}
		case *ssa.ChangeType:
			return eval(x.X)
		case *ssa.UnOp:
			if x.Op == token.SUB {
				if a, ok := eval(x.X); ok {
					return a.Neg(), true
				}
			}
		case *ssa.Call:
			if callee := x.Call.StaticCallee(); callee != nil {
				var as []Poly
				for _, a := range x.Call.Args {
					p, ok := eval(a)
					if !ok {
						return nil, false
					}
					as = append(as, p)
				}
				return c.inlinePure(callee, as, depth+1)
			}
		}
		return nil, false
	}
	for _, in := range fn.Blocks[0].Instrs {
		switch x := in.(type) {
		case *ssa.Return:
			if idx < 0 {
				if len(x.Results) != 1 {
					return nil, false
				}
				return eval(x.Results[0])
			}
			if idx >= len(x.Results) {
				return nil, false
			}
			return eval(x.Results[idx])
		case *ssa.BinOp, *ssa.Convert, *ssa.ChangeType, *ssa.UnOp, *ssa.DebugRef, *ssa.Call:
		default:
			return nil, false
		}
	}
	return nil, false
}

// lenOf: len of a slice value; slices of slices are resolved arithmetically.
func (c *PolyCtx) lenOf(v ssa.Value) Poly {
	t := v.Type().Underlying()
	if pt, ok := t.(*types.Pointer); ok {
		t = pt.Elem().Underlying()
	}
	if arr, ok := t.(*types.Array); ok {
		return polyConst(arr.Len())
	}
	switch x := v.(type) {
	case *ssa.Slice:
		lo := polyConst(0)
		if x.Low != nil {
			lo = c.Of(x.Low)
		}
		var hi Poly
		if x.High != nil {
			hi = c.Of(x.High)
		} else {
			hi = c.lenOf(x.X)
		}
		return hi.Sub(lo)
	case *ssa.MakeSlice:
		return c.Of(x.Len)
	case *ssa.UnOp:
		// a load forwarded from the single dominating store of a slice made in this function
		if x.Op == token.MUL && c.G {
			if st := c.forwardedStore(x); st != nil {
				switch st.Val.(type) {
				case *ssa.MakeSlice, *ssa.Slice:
					return c.lenOf(st.Val)
				}
			}
		}
		// a local kept in memory (captured by a closure): the one assignment that can reach this read
		if al, isAl := x.X.(*ssa.Alloc); isAl && x.Op == token.MUL && c.lenDepth < 3 {
			var reach []*ssa.Store
			for _, ref := range *al.Referrers() {
				if st, ok := ref.(*ssa.Store); ok && st.Addr == ssa.Value(al) && InstrReaches(st, x) {
					reach = append(reach, st)
				}
			}
			if len(reach) == 1 && InstrDominates(reach[0], x) && !InstrReaches(x, reach[0]) {
				c.lenDepth++
				l := c.lenOf(reach[0].Val)
				c.lenDepth--
				return l
			}
		}
	case *ssa.Call:
		if b, ok := x.Call.Value.(*ssa.Builtin); ok && b.Name() == "append" {
			// append(a, b...) : len(a)+len(b) when variadic spread of a slice
			if len(x.Call.Args) == 2 {
				return c.lenOf(x.Call.Args[0]).Add(c.lenOf(x.Call.Args[1]))
			}
		}
	case *ssa.Const:
		if x.Value == nil {
			return polyConst(0) // nil slice
		}
	case *ssa.Extract:
		if call, ok := x.Tuple.(*ssa.Call); ok {
			if l, ok := c.lenOfResult(call, x.Index); ok {
				return l
			}
		}
	case *ssa.Phi:
		// the same length whichever way the slice was obtained
		var l Poly
		same := len(x.Edges) > 0 && c.lenDepth < 3
		c.lenDepth++
		for i, e := range x.Edges {
			if !same {
				break
			}
			le := c.lenOf(e)
			if i == 0 {
				l = le
			} else if !le.Equal(l) {
				same = false
			}
		}
		c.lenDepth--
		if same {
			for k := range l {
				if strings.Contains(k, "len(phi") || strings.Contains(k, "len(rec#") {
					same = false
				}
			}
		}
		if same {
			return l
		}
	}
	if call, ok := v.(*ssa.Call); ok {
		if _, isB := call.Call.Value.(*ssa.Builtin); !isB {
			if l, ok := c.lenOfResult(call, -1); ok {
				return l
			}
		}
	}
	s := c.sliceSym(v)
	name := "len(" + strings.ReplaceAll(s.String(), "*", "·") + ")"
	if c.lenSymVal == nil {
		c.lenSymVal = map[string]ssa.Value{}
	}
	if _, ok := c.lenSymVal[name]; !ok {
		c.lenSymVal[name] = v
	}
	return polySym(name)
}

// lenOfResult: the length of the idx-th result (-1: the only one) of a static call of a module
// helper, when every return of the helper yields a slice of the same length and that length can
// be said in the caller's terms (the helper is called on the caller's own parameters).
func (c *PolyCtx) lenOfResult(call *ssa.Call, idx int) (Poly, bool) {
	g := call.Call.StaticCallee()
	if g == nil || call.Call.IsInvoke() || !isModuleFn(g) || g.Blocks == nil || c.lenDepth > 2 {
		return nil, false
	}
	ch := NewPolyCtx(g)
	ch.lenDepth = c.lenDepth + 1
	trPoly, _ := callTranslator(g, call, c, ch)
	var out Poly
	n := 0
	ok := true
	Instrs(g, func(in ssa.Instruction) {
		ret, isRet := in.(*ssa.Return)
		if !isRet || !ok {
			return
		}
		k := idx
		if k < 0 {
			k = 0
		}
		if k >= len(ret.Results) {
			ok = false
			return
		}
		if _, isSl := ret.Results[k].Type().Underlying().(*types.Slice); !isSl {
			ok = false
			return
		}
		l := trPoly(ch.lenOf(ret.Results[k]))
		if n == 0 {
			out = l
		} else if !l.Equal(out) {
			ok = false
		}
		n++
	})
	if !ok || n == 0 {
		return nil, false
	}
	// only lengths said in terms the caller has too
	for mono := range out {
		for _, sym := range strings.Split(mono, "*") {
			if strings.Contains(sym, "#") {
				return nil, false
			}
		}
	}
	return out, true
}

// SliceBounds returns (base value, lo, hi) of a slice expression (hi defaults to len(base)).
func (c *PolyCtx) SliceBounds(s *ssa.Slice) (base ssa.Value, lo, hi Poly) {
	lo = polyConst(0)
	if s.Low != nil {
		lo = c.Of(s.Low)
	}
	if s.High != nil {
		hi = c.Of(s.High)
	} else {
		hi = c.lenOf(s.X)
	}
	return s.X, lo, hi
}

// addrHasIndex: the address designates (part of) a slice/array element.
func addrHasIndex(v ssa.Value) bool {
	for {
		switch x := v.(type) {
		case *ssa.FieldAddr:
			v = x.X
		case *ssa.IndexAddr:
			return true
		default:
			return false
		}
	}
}

// minMaxKind recognises a two-parameter function that returns the smaller ("min") or the
// larger ("max") of its integer parameters: one comparison of the two parameters, each
// return yields one of them.
func minMaxKind(fn *ssa.Function) string {
	if fn.Blocks == nil || len(fn.Params) != 2 || len(fn.Blocks) > 4 {
		return ""
	}
	iff, ok := fn.Blocks[0].Instrs[len(fn.Blocks[0].Instrs)-1].(*ssa.If)
	if !ok {
		return ""
	}
	bo, ok := iff.Cond.(*ssa.BinOp)
	if !ok {
		return ""
	}
	a, b := fn.Params[0], fn.Params[1]
	if !(bo.X == ssa.Value(a) && bo.Y == ssa.Value(b)) {
		return ""
	}
	retOf := func(blk *ssa.BasicBlock) *ssa.Parameter {
		for i := 0; i < 3 && blk != nil; i++ {
			last := blk.Instrs[len(blk.Instrs)-1]
			if r, ok := last.(*ssa.Return); ok && len(r.Results) == 1 {
				p, _ := r.Results[0].(*ssa.Parameter)
				return p
			}
			if _, ok := last.(*ssa.Jump); ok {
				blk = blk.Succs[0]
				continue
			}
			return nil
		}
		return nil
	}
	t, f := retOf(fn.Blocks[0].Succs[0]), retOf(fn.Blocks[0].Succs[1])
	if t == nil || f == nil || t == f {
		return ""
	}
	switch bo.Op {
	case token.LSS, token.LEQ:
		if t == a && f == b {
			return "min"
		}
		if t == b && f == a {
			return "max"
		}
	case token.GTR, token.GEQ:
		if t == a && f == b {
			return "max"
		}
		if t == b && f == a {
			return "min"
		}
	}
	return ""
}

// cellValue: the Alloc is the cell of a variable that is assigned exactly once, before every
// read, and is otherwise only read (also by the closures that capture it): returns that value.
func cellValue(a *ssa.Alloc) (ssa.Value, bool) {
	var st *ssa.Store
	var readOnly func(v ssa.Value, depth int) bool
	readOnly = func(v ssa.Value, depth int) bool {
		if depth > 3 {
			return false
		}
		for _, ref := range *v.Referrers() {
			switch x := ref.(type) {
			case *ssa.UnOp:
				if x.Op != token.MUL {
					return false
				}
			case *ssa.DebugRef:
			case *ssa.FieldAddr, *ssa.IndexAddr:
				// parts of a struct / array variable: read only as well
				if !readOnly(x.(ssa.Value), depth+1) {
					return false
				}
			case *ssa.Store:
				if x.Addr != v || v != ssa.Value(a) || st != nil {
					return false
				}
				st = x
			case *ssa.MakeClosure:
				fn, ok := x.Fn.(*ssa.Function)
				if !ok {
					return false
				}
				for i, b := range x.Bindings {
					if b == v {
						if i >= len(fn.FreeVars) || !readOnly(fn.FreeVars[i], depth+1) {
							return false
						}
					}
				}
			default:
				return false
			}
		}
		return true
	}
	if !readOnly(a, 0) || st == nil {
		return nil, false
	}
	// the single store comes first: before every other use of the cell
	for _, ref := range *a.Referrers() {
		if in, ok := ref.(ssa.Instruction); ok && in != ssa.Instruction(st) {
			if _, isDbg := in.(*ssa.DebugRef); isDbg {
				continue
			}
			if !InstrDominates(st, in) {
				return nil, false
			}
		}
	}
	return st.Val, true
}

// resolveCell: a load from the cell of a variable that is set once and only read afterwards
// (a parameter captured by a closure) is that value.
func resolveCell(v ssa.Value) ssa.Value {
	if u, ok := v.(*ssa.UnOp); ok && u.Op == token.MUL {
		if a, isA := u.X.(*ssa.Alloc); isA {
			if val, ok := cellValue(a); ok {
				return val
			}
		}
	}
	return v
}

// polyIgnoreNarrowing: read a narrowing integer conversion as the value itself.  Set only while
// looking for positive evidence of what a comparison measures against (the code under analysis
// itself assumes the values fit), never for discharging an obligation.
var polyIgnoreNarrowing bool

// fitsNarrow: every value v can take fits the narrower integer type t, so converting it to t
// changes nothing: v was widened from a type no wider than t (same signedness), is a constant in
// range, or is the larger/smaller/merge of such values.
func fitsNarrow(v ssa.Value, t types.Type, depth int) bool {
	if depth > 5 {
		return false
	}
	tb, ok := t.Underlying().(*types.Basic)
	if !ok {
		return false
	}
	switch x := v.(type) {
	case *ssa.Convert:
		sb, ok := x.X.Type().Underlying().(*types.Basic)
		if !ok || sb.Info()&types.IsInteger == 0 {
			return false
		}
		sameSign := (sb.Info()&types.IsUnsigned != 0) == (tb.Info()&types.IsUnsigned != 0)
		if sameSign && intSize(x.X.Type()) <= intSize(t) {
			return true
		}
		return fitsNarrow(x.X, t, depth+1)
	case *ssa.Const:
		k, isC := constInt(x)
		if !isC {
			return false
		}
		bits := uint(intSize(t) * 8)
		if tb.Info()&types.IsUnsigned != 0 {
			return k >= 0 && (bits >= 63 || k < int64(1)<<bits)
		}
		return bits >= 64 || (k >= -(int64(1)<<(bits-1)) && k < int64(1)<<(bits-1))
	case *ssa.Phi:
		for _, e := range x.Edges {
			if e != v && !fitsNarrow(e, t, depth+1) {
				return false
			}
		}
		return true
	case *ssa.Call:
		for _, kind := range []string{"max", "min"} {
			if args, ok := minMaxArgs(x, kind); ok {
				for _, a := range args {
					if !fitsNarrow(a, t, depth+1) {
						return false
					}
				}
				return true
			}
		}
	}
	return false
}
