package main

import (
	"fmt"
	"golang.org/x/tools/go/ssa"
	"os"
	"sort"
	"strings"
)

func init() {
	debugFuncs["taint"] = func(p *Prog) {
		rv, err := FindRendezvous(p)
		if err != nil {
			fmt.Println(err)
			return
		}
		t := requestTaint(p, rv)
		fmt.Println("tainted fields:")
		var ks []string
		for k, w := range t.fields {
			ks = append(ks, k.String()+"  <- "+w)
		}
		sort.Strings(ks)
		for _, k := range ks {
			fmt.Println("  ", k)
		}
		for k, w := range t.chans {
			fmt.Println("   chan", k, "<-", w)
		}
		for _, fn := range t.TaintedFuncs() {
			for _, s := range t.Sinks(fn) {
				fmt.Printf("SINK %-14s %-50s %s  v=%s (%s)\n", s.Kind, FuncName(fn), p.InstrPos(s.Instr), s.V.Name(), t.vals[s.V])
			}
		}
	}
}

func init() {
	debugFuncs["guards"] = func(p *Prog) {
		rv, _ := FindRendezvous(p)
		t := requestTaint(p, rv)
		inv := DeriveLenInvariants(p, runPhaseFuncs(p, rv))
		for _, fn := range t.TaintedFuncs() {
			g := NewGuardCtx(p, fn, inv)
			for _, s := range t.Sinks(fn) {
				for _, goal := range g.SinkGoals(s) {
					fmt.Printf("== %s %s goal %s : %s  PROVEN=%v\n", FuncName(fn), p.InstrPos(s.Instr), goal.What, goal.P, g.Prove(goal.P, s.Instr))
					for _, f := range g.AllFacts(goal.P, s.Instr) {
						fmt.Printf("     fact %s   [%s]\n", f, f.Why)
					}
				}
			}
		}
	}
}

func init() {
	debugFuncs["allsinks"] = func(p *Prog) {
		want := os.Getenv("DLINT_FUNC")
		line := os.Getenv("DLINT_LINE")
		for _, fn := range p.LibFuncs() {
			if want != "" && !strings.Contains(FuncName(fn), want) {
				continue
			}
			g := NewGuardCtx(p, fn, nil)
			for _, s := range allSinks(fn) {
				if line != "" && !strings.HasSuffix(p.InstrPos(s.Instr), ":"+line) {
					continue
				}
				for _, goal := range g.SinkGoals(s) {
					fmt.Printf("== %s %s %s goal %s : %s  PROVEN=%v\n", FuncName(fn), p.InstrPos(s.Instr), s.Kind, goal.What, goal.P, g.prove(goal.P, goal.NE, s.Instr, 0))
					for _, f := range g.AllFacts(goal.P, s.Instr) {
						fmt.Printf("     fact %s   [%s]\n", f, f.Why)
					}
				}
			}
		}
	}
}

func init() {
	debugFuncs["calls"] = func(p *Prog) {
		fn := p.Func("", "", os.Getenv("DLINT_FUNC"))
		if fn == nil {
			fmt.Println("no func")
			return
		}
		Instrs(fn, func(in ssa.Instruction) {
			if c, ok := in.(*ssa.Call); ok {
				fmt.Printf("%T %v name=%q\n", c.Call.Value, c.Call.Value, CalleeName(&c.Call))
			}
		})
	}
}

func init() {
	debugFuncs["races"] = func(p *Prog) {
		rv, _ := FindRendezvous(p)
		e := NewRaceEngine(p, rv)
		for _, r := range e.Roles {
			fmt.Printf("ROLE %s multi=%v join=%v scoped=%v tag=%s reach=%d part=%d\n", r.ID, r.Multi, r.Join != nil, r.Scoped, roleTag(r), len(r.Reach), len(r.PartTy))
		}
		cs := e.Conflicts(nil)
		fmt.Println(len(cs), "conflicts")
		byPair := map[string]int{}
		for _, c := range cs {
			a, b := c.A.Role.ID, c.B.Role.ID
			if a > b {
				a, b = b, a
			}
			byPair[a+"  <->  "+b]++
		}
		var ps []string
		for k, n := range byPair {
			ps = append(ps, fmt.Sprintf("%4d %s", n, k))
		}
		sort.Strings(ps)
		for _, l := range ps {
			fmt.Println("PAIR", l)
		}
		byKey := map[string]int{}
		for _, c := range cs {
			byKey[c.Key.String()]++
		}
		var ks []string
		for k := range byKey {
			ks = append(ks, k)
		}
		sort.Strings(ks)
		for _, k := range ks {
			fmt.Printf("  %-55s %d\n", k, byKey[k])
		}
		if os.Getenv("DLINT_ALL") != "" {
			short := func(id string) string {
				id = strings.TrimPrefix(id, "go ")
				if i := strings.Index(id, " in "); i > 0 {
					id = id[:i]
				}
				return id
			}
			for _, c := range cs {
				fmt.Printf("%-38s %s/%s:%s x %s/%s:%s w=%v\n", c.Key, short(c.A.Role.ID), c.A.Fn.Name(), strings.TrimPrefix(p.InstrPos(c.A.Instr), ""), short(c.B.Role.ID), c.B.Fn.Name(), p.InstrPos(c.B.Instr), c.B.Write)
			}
		}
		if pr := os.Getenv("DLINT_PAIR"); pr != "" {
			for _, c := range cs {
				if strings.Contains(c.A.Role.ID+" <-> "+c.B.Role.ID, pr) || strings.Contains(c.B.Role.ID+" <-> "+c.A.Role.ID, pr) {
					fmt.Printf("%-40s W %s@%s  x %s@%s w=%v\n", c.Key, FuncName(c.A.Fn), p.InstrPos(c.A.Instr), FuncName(c.B.Fn), p.InstrPos(c.B.Instr), c.B.Write)
				}
			}
		}
		if os.Getenv("DLINT_KEY") != "" {
			for _, c := range cs {
				if c.Key.String() == os.Getenv("DLINT_KEY") {
					fmt.Printf("W %s / %s @%s locks=%v\n   x %s / %s @%s write=%v locks=%v\n", c.A.Role.ID, FuncName(c.A.Fn), p.InstrPos(c.A.Instr), c.A.Locks, c.B.Role.ID, FuncName(c.B.Fn), p.InstrPos(c.B.Instr), c.B.Write, c.B.Locks)
				}
			}
		}
	}
}

func init() {
	debugFuncs["path"] = func(p *Prog) {
		from := p.Func("", os.Getenv("DLINT_RECV"), os.Getenv("DLINT_FROM"))
		to := os.Getenv("DLINT_TO")
		if from == nil {
			fmt.Println("no from")
			return
		}
		ok, path := p.Reaches(from, func(f *ssa.Function) bool { return strings.Contains(FuncName(f), to) }, 12)
		fmt.Println(ok, pathString(path))
	}
}

func init() {
	debugFuncs["summaries"] = func(p *Prog) {
		want := os.Getenv("DLINT_FUNC")
		for _, fn := range p.LibFuncs() {
			if want == "" || !strings.Contains(FuncName(fn), want) {
				continue
			}
			fmt.Printf("== %s writes=%d\n", FuncName(fn), len(p.TransEffects(fn, nil, nil).W))
			for k := range p.TransEffects(fn, nil, nil).W {
				fmt.Printf("   W %v\n", k)
			}
			g := NewGuardCtx(p, fn, nil)
			for _, u := range g.universals() {
				fmt.Printf("   univ %s\n", u.F)
			}
			for _, m := range []string{"true", "false", "nilerr"} {
				for _, f := range returnFacts(p, fn, m) {
					fmt.Printf("   %s: %s\n", m, f)
				}
			}
			for _, cu := range returnUnivs(p, fn) {
				fmt.Printf("   univ-summary key=%q edge=%d %s\n", cu.Key, cu.Edge, cu.F)
			}
			sites, complete := p.staticCallSites(fn)
			fmt.Printf("   call sites=%d complete=%v\n", len(sites), complete)
			for _, f := range g.entryFacts() {
				fmt.Printf("   entry: %s\n", f)
			}
			for _, iu := range g.importedUnivs() {
				fmt.Printf("   imported key=%q edge=%d %s\n", iu.Key, iu.Edge, iu.F)
			}
		}
	}
}
