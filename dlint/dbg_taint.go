package main

import (
	"fmt"
	"golang.org/x/tools/go/ssa"
	"os"
	"sort"
	"strings"
)

func init() {
	debugFuncs["taint"] = func(p *Prog) {
		rv, err := FindRendezvous(p)
		if err != nil {
			fmt.Println(err)
			return
		}
		t := requestTaint(p, rv)
		fmt.Println("tainted fields:")
		var ks []string
		for k, w := range t.fields {
			ks = append(ks, k.String()+"  <- "+w)
		}
		sort.Strings(ks)
		for _, k := range ks {
			fmt.Println("  ", k)
		}
		for k, w := range t.chans {
			fmt.Println("   chan", k, "<-", w)
		}
		for _, fn := range t.TaintedFuncs() {
			for _, s := range t.Sinks(fn) {
				fmt.Printf("SINK %-14s %-50s %s  v=%s (%s)\n", s.Kind, FuncName(fn), p.InstrPos(s.Instr), s.V.Name(), t.vals[s.V])
			}
		}
	}
}

func init() {
	debugFuncs["guards"] = func(p *Prog) {
		rv, _ := FindRendezvous(p)
		t := requestTaint(p, rv)
		inv := DeriveLenInvariants(p, runPhaseFuncs(p, rv))
		for _, fn := range t.TaintedFuncs() {
			g := NewGuardCtx(p, fn, inv)
			for _, s := range t.Sinks(fn) {
				for _, goal := range g.SinkGoals(s) {
					fmt.Printf("== %s %s goal %s : %s  PROVEN=%v\n", FuncName(fn), p.InstrPos(s.Instr), goal.What, goal.P, g.Prove(goal.P, s.Instr))
					for _, f := range g.AllFacts(goal.P, s.Instr) {
						fmt.Printf("     fact %s   [%s]\n", f, f.Why)
					}
				}
			}
		}
	}
}

func init() {
	debugFuncs["allsinks"] = func(p *Prog) {
		want := os.Getenv("DLINT_FUNC")
		line := os.Getenv("DLINT_LINE")
		for _, fn := range p.LibFuncs() {
			if want != "" && !strings.Contains(FuncName(fn), want) {
				continue
			}
			g := NewGuardCtx(p, fn, nil)
			for _, s := range allSinks(fn) {
				if line != "" && !strings.HasSuffix(p.InstrPos(s.Instr), ":"+line) {
					continue
				}
				for _, goal := range g.SinkGoals(s) {
					fmt.Printf("== %s %s %s goal %s : %s  PROVEN=%v\n", FuncName(fn), p.InstrPos(s.Instr), s.Kind, goal.What, goal.P, g.prove(goal.P, goal.NE, s.Instr, 0))
					for _, f := range g.AllFacts(goal.P, s.Instr) {
						fmt.Printf("     fact %s   [%s]\n", f, f.Why)
					}
				}
			}
		}
	}
}

func init() {
	debugFuncs["calls"] = func(p *Prog) {
		fn := p.Func("", "", os.Getenv("DLINT_FUNC"))
		if fn == nil {
			fmt.Println("no func")
			return
		}
		Instrs(fn, func(in ssa.Instruction) {
			if c, ok := in.(*ssa.Call); ok {
				fmt.Printf("%T %v name=%q\n", c.Call.Value, c.Call.Value, CalleeName(&c.Call))
			}
		})
	}
}
