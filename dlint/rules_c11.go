package main

import (
	"fmt"
	"go/token"
	"go/types"
	"sort"
	"strings"

	"golang.org/x/tools/go/ssa"
)

func init() {
	register(&RuleSet{
		Property: "C11",
		Explanation: "Decides, for every path of every request closure and RPC handler, the structural clauses of C11: " +
			"(R1) each request closure sends exactly one reply on the result channel on every path to every return, and the queueing function pairs one hand-off with one reply receive; " +
			"(R2) every DataSource call that writes state the core loop touches is made inside a request closure (or in the start phase / after the run-done barrier), and the core loop runs requests synchronously in the goroutine that processes blocks; " +
			"(R3) every RPC-argument-derived index, length or divisor reaching a slice index / make / division in request code is dominated by a two-sided guard; " +
			"(R4) handler-side channel operations whose peer goroutine can have exited are not unconditional; " +
			"(R5) no panic / log.Fatal / os.Exit site is reachable from a request closure or a request handler (the documented fire-and-forget goroutine excepted). " +
			"Does not decide: panics from runtime errors outside the modelled sink kinds (nil map writes, type assertions, third-party library panics), latency.",
		RuleDocs: []string{
			"C11.R1 reply-exactly-once: occurrence count of sends on the controller's chan error field along every path of every function value that flows into the queueing function's parameter (interprocedural through module callees)",
			"C11.R1q queueing function: one send of the parameter on the chan func() field is followed by exactly one receive from the chan error field on every path",
			"C11.R2 confinement: handler-side interface calls on the data source whose implementations (transitively) write a field that core-loop-reachable code accesses must sit in a request closure, in the start phase (not reachable from the `go` statement that starts the core loop) or after the run-done WaitGroup.Wait",
			"C11.R2b a handler-side call of a data-source method outside a request closure and outside the start phase has no effect on the source: no implementation stores into a field of an object it did not allocate (table exceptions: Stop, ConfigureMixFraction)",
			"C11.R2s the receiver of the chan func() calls the received closure synchronously and calls block processing synchronously in the same function",
			"C11.R2p one production step per consumed block: in the request-channel consumer a call of the data-source method that hands out the block channel (for Lancero and Abaco it also starts the next production step) lies outside the loop, or is dominated by the select arm (or receive) that took a block from that channel",
			"C11.R9 no call of gonum's (*mat.Dense/VecDense).UnmarshalBinaryFrom (allocates what the header claims; documented as unsafe for untrusted data) is reachable from an RPC handler",
			"C11.R8 no field assignment to a by-value struct parameter/receiver whose value is never read again, in the functions the core loop runs (lost update of shared state: a one-shot activity stays armed and a later send blocks the loop)",
			"C11.R3 guard dominance (E6): forward taint from the arguments of request handlers through calls, closures, returns, request-written fields (outside per-channel types), channel messages and client-keyed maps; every index / slice bound / make size / divisor fed by such a value needs 0 <= v and v < len proven from dominating branch conditions, range loops, completed validation loops and derived equal-length invariants, in the function itself or at every place that supplies the value (call sites, closure creation, send sites, field stores, map insertions)",
			"C11.R4 mortal peer: the hand-off send must be a select arm with an alternative; the active flag is set true only on the success branch of the start call; handlers test the flag before calls that block on per-block goroutines",
			"C11.R6 lock re-entrancy: no call made while a mutex field is held reaches a Lock of the same mutex of the same object (self-deadlock inside the core loop)",
			"C11.R7 a pulse-length request never leaves projectors installed for another record length (the next record would panic the block-processing goroutine): same path rule as C13.R2",
			"C11.R5 no deliberate crash: panic/log.Fatal/os.Exit sites in module code reachable (VTA call graph) from request closures and from handlers that queue requests",
		},
		Run: runC11,
	})
}

type c11ctx struct {
	p  *Prog
	r  *Report
	rv *Rendezvous
}

func runC11(p *Prog, r *Report) {
	rv, err := FindRendezvous(p)
	if err != nil {
		r.Unk("C11.anchor", "rendezvous", "-", err.Error())
		return
	}
	c := &c11ctx{p, r, rv}
	r.MinInstances["C11.R1"] = 8
	r.MinInstances["C11.R2"] = 5
	r.MinInstances["C11.R5"] = 11
	r.MinInstances["C11.R2p"] = 1
	r.MinInstances["C11.R3"] = 25
	r.Notes = append(r.Notes, fmt.Sprintf("anchors: controller=%s request channel field=%s result channel field=%s queueing function=%s; %d request closures from %d call sites; %d RPC handlers",
		rv.Ctl.Obj().Name(), rv.ReqField, rv.ResField, FuncName(rv.Queue), len(rv.Closures), len(rv.CallSites), len(rv.Handlers)))
	for _, cs := range rv.Unresolved {
		r.Unk("C11.R1", "unresolved request value in "+FuncName(cs.Parent()), p.InstrPos(cs), "the function value passed to the queueing function could not be traced to closures")
	}
	c.ruleR1()
	c.ruleR2()
	c.ruleR5()
	c.ruleR3()
	c.ruleR4()
	checkLockReentrancy(p, r, "C11.R6")
	c13R2As(p, r, "C11.R7")
	c11R8(p, r)
	c11R9(p, r, rv)
}

// ---- R1 ------------------------------------------------------------------------

func (c *c11ctx) sendSummary(fn *ssa.Function, depth int, memo map[*ssa.Function]CountSet) CountSet {
	if v, ok := memo[fn]; ok {
		return v
	}
	if depth > 6 || fn.Blocks == nil {
		return C0
	}
	memo[fn] = C0 // recursion guard
	exits := CountEvents(fn, func(in ssa.Instruction) CountSet { return c.replyEvent(in, depth, memo) })
	var out CountSet
	for _, e := range exits {
		if e.Kind == ExitReturn {
			out |= e.Count
		}
	}
	if out == 0 {
		out = C0
	}
	memo[fn] = out
	return out
}

func (c *c11ctx) replyEvent(in ssa.Instruction, depth int, memo map[*ssa.Function]CountSet) CountSet {
	if c.rv.IsResultSend(in) {
		return C1
	}
	if sel, ok := in.(*ssa.Select); ok {
		for _, st := range sel.States {
			if st.Dir == types.SendOnly {
				if _, f, _, ok := FieldOf(st.Chan); ok && f == c.rv.ResField {
					return C0 | C1
				}
			}
		}
	}
	if _, isGo := in.(*ssa.Go); isGo {
		return 0
	}
	cc := CallOf(in)
	if cc == nil {
		return 0
	}
	if f := cc.StaticCallee(); f != nil {
		pk := fnPkg(f)
		if pk != nil && strings.HasPrefix(pk.Path(), modPath) {
			s := c.sendSummary(f, depth+1, memo)
			if s != C0 {
				return s
			}
		}
	}
	return 0
}

func (c *c11ctx) ruleR1() {
	memo := map[*ssa.Function]CountSet{}
	for _, cl := range c.rv.Closures {
		c.r.Fn(FuncName(cl))
		exits := CountEvents(cl, func(in ssa.Instruction) CountSet { return c.replyEvent(in, 0, memo) })
		bad := false
		for _, e := range exits {
			if e.Kind != ExitReturn {
				continue
			}
			if e.Count != C1 {
				bad = true
				c.r.Bad("C11.R1", FuncName(cl), c.p.InstrPos(e.Instr),
					fmt.Sprintf("request closure reaches the return at %s having sent %s replies on %s (want exactly 1): 0 leaves the RPC caller blocked forever, >=2 blocks the core loop forever on the second send",
						c.p.InstrPos(e.Instr), e.Count, c.rv.ResField))
				break
			}
		}
		if !bad {
			if len(exits) == 0 {
				c.r.Unk("C11.R1", FuncName(cl), c.p.Pos(cl.Pos()), "closure has no exit")
			} else {
				c.r.OK("C11.R1", FuncName(cl), c.p.Pos(cl.Pos()), fmt.Sprintf("exactly one reply on each of %d exits", len(exits)))
			}
		}
	}
	// the queueing function itself
	q := c.rv.Handoff
	c.r.Fn(FuncName(q))
	armStart := map[ssa.Instruction]bool{} // first instruction of a select arm in which the hand-off fired
	Instrs(q, func(in ssa.Instruction) {
		if sel, ok := in.(*ssa.Select); ok {
			arms := SelectArms(sel)
			for k, st := range sel.States {
				if st.Dir == types.SendOnly && chanFieldName(st.Chan) == c.rv.ReqField && arms[k] != nil {
					armStart[arms[k].Instrs[0]] = true
				}
			}
		}
	})
	sends := CountEvents(q, func(in ssa.Instruction) CountSet {
		if s, ok := in.(*ssa.Send); ok && chanFieldName(s.Chan) == c.rv.ReqField {
			return C1
		}
		if armStart[in] {
			return C1
		}
		return 0
	})
	recvs := CountEvents(q, func(in ssa.Instruction) CountSet {
		if u, ok := in.(*ssa.UnOp); ok && u.Op == token.ARROW && chanFieldName(u.X) == c.rv.ResField {
			return C1
		}
		return 0
	})
	okq := len(sends) == len(recvs) && len(sends) > 0
	msg := ""
	for i := range sends {
		if !okq {
			break
		}
		s, rc := sends[i].Count, recvs[i].Count
		if sends[i].Kind != ExitReturn {
			continue
		}
		if !(s == rc && (s == C0 || s == C1)) {
			okq = false
			msg = fmt.Sprintf("exit at %s: %s hand-offs but %s reply receives", c.p.InstrPos(sends[i].Instr), s, rc)
		}
	}
	c.r.Check(okq, "C11.R1q", FuncName(q), c.p.Pos(q.Pos()), "every exit has 0 hand-offs and 0 receives, or 1 and 1", "queueing function does not pair one hand-off with one reply: "+msg)
	// no other function receives from the result channel or sends on the request channel
	for _, fn := range c.p.LibFuncs() {
		if fn == q {
			continue
		}
		Instrs(fn, func(in ssa.Instruction) {
			if u, ok := in.(*ssa.UnOp); ok && u.Op == token.ARROW {
				if o, f, _, ok := FieldOf(u.X); ok && f == c.rv.ResField && o == c.rv.Ctl.Obj().Name() {
					c.r.Bad("C11.R1q", "extra receiver of "+c.rv.ResField+" in "+FuncName(fn), c.p.InstrPos(in), "a second receiver can steal the reply meant for the queueing function")
				}
			}
			if s, ok := in.(*ssa.Send); ok {
				if o, f, _, ok := FieldOf(s.Chan); ok && f == c.rv.ReqField && o == c.rv.Ctl.Obj().Name() {
					c.r.Bad("C11.R1q", "extra sender on "+c.rv.ReqField+" in "+FuncName(fn), c.p.InstrPos(in), "requests must be queued through the queueing function only")
				}
			}
		})
	}
}

// ---- R2 ------------------------------------------------------------------------

// coreConsumer finds the function(s) that receive from a chan func() value.
func (c *c11ctx) coreConsumers() []*ssa.Function {
	var out []*ssa.Function
	for _, fn := range c.p.LibFuncs() {
		found := false
		Instrs(fn, func(in ssa.Instruction) {
			switch x := in.(type) {
			case *ssa.UnOp:
				if x.Op == token.ARROW && isChanOf(x.X.Type(), isFuncVoid) {
					found = true
				}
			case *ssa.Select:
				for _, st := range x.States {
					if st.Dir == types.RecvOnly && isChanOf(st.Chan.Type(), isFuncVoid) {
						found = true
					}
				}
			}
		})
		if found {
			out = append(out, fn)
		}
	}
	return out
}

// isRequestCall: a call of a func() value that is not statically known (the received request).
func isDynamicVoidCall(in ssa.Instruction) bool {
	cc := CallOf(in)
	if cc == nil || cc.IsInvoke() || cc.StaticCallee() != nil {
		return false
	}
	if _, ok := cc.Value.(*ssa.Builtin); ok {
		return false
	}
	return isFuncVoid(cc.Value.Type())
}

func (c *c11ctx) ruleR2() {
	p, r := c.p, c.r
	cons := c.coreConsumers()
	if len(cons) != 1 {
		r.Unk("C11.R2s", "core consumer", "-", fmt.Sprintf("expected exactly one function receiving from a chan func(), found %d", len(cons)))
		return
	}
	core := cons[0]
	r.Fn(FuncName(core))
	// R2s: synchronous request call + synchronous block processing in the same function
	var reqCalls, reqGos, procCalls, procGos int
	var dsIface *types.Named
	for _, prm := range core.Params {
		if n, ok := prm.Type().(*types.Named); ok {
			if _, isI := n.Underlying().(*types.Interface); isI {
				dsIface = n
			}
		}
	}
	if dsIface == nil {
		r.Unk("C11.R2s", "data-source interface", p.Pos(core.Pos()), "core consumer has no interface-typed parameter")
		return
	}
	blockParamMethod := "" // the interface method taking the received block
	InstrsDeep(core, 2, func(di DeepInstr) {
		in := di.In
		if isDynamicVoidCall(in) {
			if _, ok := in.(*ssa.Go); ok {
				reqGos++
			} else if _, ok := in.(*ssa.Call); ok {
				reqCalls++
			}
		}
		cc := CallOf(in)
		if cc != nil && cc.IsInvoke() && cc.Value.Type() == dsIface && len(cc.Args) == 1 {
			if _, isPtr := cc.Args[0].Type().(*types.Pointer); isPtr && cc.Method.Type().(*types.Signature).Results().Len() == 1 {
				blockParamMethod = cc.Method.Name()
				if _, ok := in.(*ssa.Go); ok {
					procGos++
				} else {
					procCalls++
				}
			}
		}
	})
	r.Check(reqCalls >= 1 && reqGos == 0 && procCalls >= 1 && procGos == 0, "C11.R2s", FuncName(core), p.Pos(core.Pos()),
		fmt.Sprintf("requests and %s are both called synchronously in the consumer of the request channel", blockParamMethod),
		fmt.Sprintf("the request-channel consumer must run requests and block processing synchronously in one goroutine (sync request calls=%d, go request=%d, sync processing calls=%d, go processing=%d)", reqCalls, reqGos, procCalls, procGos))
	// R2p: one production step per consumed block.  For some sources asking for the block
	// channel is what starts the next production step (it launches a goroutine that takes one
	// raw buffer, applies pending mix requests and distributes the data), so inside the loop the
	// consumer may ask only after it received a block, never on a pass that served a request.
	Instrs(core, func(in ssa.Instruction) {
		cc := CallOf(in)
		if cc == nil || !cc.IsInvoke() || cc.Value.Type() != dsIface || len(cc.Args) != 0 {
			return
		}
		sig := cc.Method.Type().(*types.Signature)
		if sig.Results().Len() != 1 {
			return
		}
		cht, isChan := sig.Results().At(0).Type().Underlying().(*types.Chan)
		if !isChan {
			return
		}
		key := fmt.Sprintf("%s: %s is asked for the next block only after a block was received", FuncName(core), cc.Method.Name())
		b := in.Block()
		inCycle := func(x *ssa.BasicBlock) bool {
			for _, sc := range x.Succs {
				if sc == x || BlockReaches(sc, x) {
					return true
				}
			}
			return false
		}
		if !inCycle(b) {
			r.OK("C11.R2p", key+" (first step)", p.InstrPos(in), "called once, outside the loop")
			return
		}
		after := false
		Instrs(core, func(x ssa.Instruction) {
			switch y := x.(type) {
			case *ssa.Select:
				arms := SelectArms(y)
				for k, st := range y.States {
					if st.Dir == types.RecvOnly && types.Identical(st.Chan.Type().Underlying().(*types.Chan).Elem(), cht.Elem()) {
						if arm := arms[k]; arm != nil && (arm == b || arm.Dominates(b)) {
							after = true
						}
					}
				}
			case *ssa.UnOp:
				if y.Op == token.ARROW {
					if ct, ok := y.X.Type().Underlying().(*types.Chan); ok && types.Identical(ct.Elem(), cht.Elem()) && InstrDominates(y, in) {
						if inCycle(y.Block()) {
							after = true
						}
					}
				}
			}
		})
		r.Check(after, "C11.R2p", key, p.InstrPos(in), "inside the loop the call is dominated by the arm that received a block",
			"inside the loop "+cc.Method.Name()+" is called on passes that did not receive a block (for instance after serving a control request): for sources where this call starts a production step, extra steps then run concurrently with each other (a mix request is applied while another step distributes data) and each of them closes the block channel when the source stops (close of closed channel)")
	})
	// exactly one go statement starts the consumer
	var starter *ssa.Go
	nstart := 0
	for _, gs := range p.GoStarts() {
		for _, f := range gs.Callees {
			if f == core {
				starter = gs.Instr
				nstart++
			}
		}
	}
	if nstart != 1 {
		r.Bad("C11.R2s", "starts of "+FuncName(core), p.Pos(core.Pos()), fmt.Sprintf("the core loop must be started by exactly one go statement, found %d", nstart))
		return
	}

	// core-side effects: everything the consumer reaches except the request call itself
	coreEff := p.TransEffects(core, isDynamicVoidCall, nil)
	// request closures add to the core side (they run in the core goroutine)
	inClosure := map[*ssa.Function]bool{}
	for _, cl := range c.rv.Closures {
		inClosure[cl] = true
		for _, a := range Anons(cl) {
			inClosure[a] = true
		}
	}

	// run-done barrier: functions that call (*sync.WaitGroup).Wait on a struct field directly
	isBarrierFn := func(f *ssa.Function) bool {
		if f == nil || f.Blocks == nil {
			return false
		}
		res := false
		Instrs(f, func(in ssa.Instruction) {
			if IsCallTo(in, "(*sync.WaitGroup).Wait") {
				cc := CallOf(in)
				if _, ok := cc.Args[0].(*ssa.FieldAddr); ok {
					res = true
				}
			}
		})
		return res
	}

	// handler-side walk
	type site struct {
		in   ssa.Instruction
		fn   *ssa.Function
		root *ssa.Function
	}
	var sites []site
	for _, h := range c.rv.Handlers {
		seen := map[*ssa.Function]bool{}
		var walk func(f *ssa.Function)
		walk = func(f *ssa.Function) {
			if f == nil || seen[f] || f.Blocks == nil || inClosure[f] {
				return
			}
			pk := fnPkg(f)
			if pk == nil || !strings.HasPrefix(pk.Path(), modPath) {
				return
			}
			seen[f] = true
			r.Fn(FuncName(f))
			// start phase: instructions not reachable from the go statement that starts the core loop
			afterStart := map[ssa.Instruction]bool{}
			if starter.Parent() == f {
				for _, in := range ReachAvoiding(f, starter, nil, func(ssa.Instruction) bool { return true }) {
					afterStart[in] = true
				}
			}
			Instrs(f, func(in ssa.Instruction) {
				cc := CallOf(in)
				if cc == nil {
					return
				}
				if cc.IsInvoke() && cc.Value.Type() == dsIface {
					if starter.Parent() == f && !afterStart[in] {
						return // start phase
					}
					sites = append(sites, site{in, f, h})
					return
				}
				if sc := cc.StaticCallee(); sc != nil && sc != core {
					if starter.Parent() == f && !afterStart[in] {
						return // a helper called in the start phase belongs to the start phase
					}
					walk(sc)
				}
			})
		}
		walk(h)
	}
	type agg struct {
		pos   string
		conf  map[string]bool
		count int
	}
	byKey := map[string]*agg{}
	var keys []string
	for _, s := range sites {
		r.CallSites++
		cc := CallOf(s.in)
		key := FuncName(s.fn) + " calls " + dsIface.Obj().Name() + "." + cc.Method.Name()
		a := byKey[key]
		if a == nil {
			a = &agg{pos: p.InstrPos(s.in), conf: map[string]bool{}}
			byKey[key] = a
			keys = append(keys, key)
		}
		a.count++
		for _, impl := range p.callees(s.in) {
			impl = Unwrap(impl)
			// skip instructions dominated by the run-done barrier
			var barrier ssa.Instruction
			Instrs(impl, func(in ssa.Instruction) {
				if cc := CallOf(in); cc != nil && barrier == nil {
					if f := cc.StaticCallee(); f != nil && (isBarrierFn(f) || IsCallTo(in, "(*sync.WaitGroup).Wait")) {
						barrier = in
					}
				}
			})
			skip := func(in ssa.Instruction) bool {
				return barrier != nil && in != barrier && InstrDominates(barrier, in)
			}
			eff := p.TransEffects(impl, skip, nil)
			for _, k := range Conflicts(eff, coreEff) {
				w := eff.W[k]
				a.conf[fmt.Sprintf("%s written at %s (via %s)", k, p.InstrPos(w), FuncName(impl))] = true
			}
		}
	}
	// R2b: a request that changes the source's state at all must go through the queue ("takes
	// effect only between data blocks"), even when a mutex makes it free of data races.  For
	// every handler-side call found above: no implementation may store into a field of an object
	// it did not allocate itself (module types), except for the listed methods.
	doneR2b := map[string]bool{}
	for _, s := range sites {
		cc := CallOf(s.in)
		m := cc.Method.Name()
		key := FuncName(s.fn) + " calls " + dsIface.Obj().Name() + "." + m + ": no effect on the source outside the request queue"
		if doneR2b[key] {
			continue
		}
		doneR2b[key] = true
		if reason, ok := c11R2bExceptions[m]; ok {
			r.OK("C11.R2b", key, p.InstrPos(s.in), "table exception: "+reason)
			continue
		}
		var writes []string
		for _, impl := range p.callees(s.in) {
			impl = Unwrap(impl)
			for _, w := range nonLocalFieldStores(p, impl, 6) {
				writes = append(writes, w)
			}
		}
		sort.Strings(writes)
		writes = uniq(writes)
		if len(writes) > 4 {
			writes = append(writes[:4], fmt.Sprintf("… %d more", len(writes)-4))
		}
		r.Check(len(writes) == 0, "C11.R2b", key, p.InstrPos(s.in), "every implementation only reads (or writes objects it allocated)",
			"the handler calls a data-source method that changes the source ("+strings.Join(writes, "; ")+") directly from the RPC goroutine: the request takes effect in the middle of block processing instead of between blocks")
	}
	sort.Strings(keys)
	for _, key := range keys {
		a := byKey[key]
		if len(a.conf) == 0 {
			r.OK("C11.R2", key, a.pos, "no implementation writes a field the core loop accesses")
			continue
		}
		var cl []string
		for k := range a.conf {
			cl = append(cl, k)
		}
		sort.Strings(cl)
		if reason, ok := c11R2Exceptions[keyMethod(key)]; ok && allowedConflicts(keyMethod(key), cl) {
			r.OK("C11.R2", key, a.pos, "table exception: "+reason)
			continue
		}
		if len(cl) > 4 {
			cl = append(cl[:4], fmt.Sprintf("… %d more", len(cl)-4))
		}
		r.Bad("C11.R2", key, a.pos, "handler-side call outside a request closure writes state the core loop accesses concurrently: "+strings.Join(cl, "; "))
	}
}

func keyMethod(key string) string {
	i := strings.LastIndex(key, ".")
	return key[i+1:]
}

// c11R2Exceptions: handler-side data-source calls that may write shared state, one reason each.
// The conflicts tolerated are restricted per method (see allowedConflicts).
var c11R2Exceptions = map[string]string{
	"Stop": "Stop writes only the life-cycle state under sourceStateLock before the run-done barrier; everything after RunDoneWait runs when the core loop has exited",
}

// c11R2bExceptions: data-source methods a handler may call outside the queue although they
// change the source, one reason each.
var c11R2bExceptions = map[string]string{
	"Stop":                 "ending the run is not a request that acts between blocks: it sets the life-cycle state under its mutex and waits for the core loop to finish",
	"ConfigureMixFraction": "mix requests are handed to the per-block goroutine of the Lancero source through its own channels, which applies them between reads (by design, see the property's anchors)",
}

// nonLocalFieldStores lists stores into struct fields of module types, reachable from fn through
// module callees, whose target object was not allocated by the storing function itself.
func nonLocalFieldStores(p *Prog, fn *ssa.Function, depth int) []string {
	var out []string
	seen := map[*ssa.Function]bool{}
	var visit func(f *ssa.Function, d int)
	visit = func(f *ssa.Function, d int) {
		if f == nil || seen[f] || f.Blocks == nil || d > depth {
			return
		}
		pk := fnPkg(f)
		if pk == nil || !strings.HasPrefix(pk.Path(), modPath) {
			return
		}
		seen[f] = true
		Instrs(f, func(in ssa.Instruction) {
			if st, ok := in.(*ssa.Store); ok {
				if o, fld, _, isF := FieldOf(st.Addr); isF {
					root := addrRoot(st.Addr)
					if ia, isIA := root.(*ssa.IndexAddr); isIA {
						root = ia.X
					}
					switch root.(type) {
					case *ssa.Alloc, *ssa.MakeSlice:
						return // an object built here
					}
					out = append(out, o+"."+fld+" at "+p.InstrPos(st))
				}
				return
			}
			if _, isGo := in.(*ssa.Go); isGo {
				return
			}
			if CallOf(in) == nil {
				return
			}
			for _, c := range p.callees(in) {
				visit(Unwrap(c), d+1)
			}
		})
	}
	visit(fn, 0)
	return out
}

// allowedConflicts restricts a table exception to the named fields.
func allowedConflicts(method string, confl []string) bool {
	allowed := map[string][]string{
		"Stop": {"AnySource.sourceState "},
	}[method]
	for _, c := range confl {
		ok := false
		for _, a := range allowed {
			if strings.HasPrefix(c, a) {
				ok = true
			}
		}
		if !ok {
			return false
		}
	}
	return true
}

// ---- R5 ------------------------------------------------------------------------

func (c *c11ctx) ruleR5() {
	p, r := c.p, c.r
	// roots: request closures and handlers that can queue a request
	var roots []*ssa.Function
	roots = append(roots, c.rv.Closures...)
	for _, h := range c.rv.Handlers {
		if ok, _ := p.Reaches(h, func(f *ssa.Function) bool { return c.rv.Queues[f] }, 4); ok {
			roots = append(roots, h)
		}
	}
	// fire-and-forget wrappers: goroutines started by a handler that themselves queue a request
	fireAndForget := map[*ssa.Function]bool{}
	for _, gs := range p.GoStarts() {
		isHandler := false
		for _, h := range c.rv.Handlers {
			if gs.In == h {
				isHandler = true
			}
		}
		if !isHandler {
			continue
		}
		for _, f := range gs.Callees {
			calls := false
			Instrs(f, func(in ssa.Instruction) {
				if cc := CallOf(in); cc != nil && cc.StaticCallee() != nil && c.rv.Queues[cc.StaticCallee()] {
					calls = true
				}
			})
			if calls {
				fireAndForget[f] = true
				r.Notes = append(r.Notes, "C11.R5 excludes the fire-and-forget goroutine "+FuncName(f)+" (documented mode, excluded by the property text)")
			}
		}
	}
	for _, root := range roots {
		r.Fn(FuncName(root))
		seen := map[*ssa.Function]bool{}
		var sites []string
		var walk func(f *ssa.Function, path []*ssa.Function)
		walk = func(f *ssa.Function, path []*ssa.Function) {
			if f == nil || seen[f] || f.Blocks == nil || fireAndForget[f] || len(path) > 12 {
				return
			}
			pk := fnPkg(f)
			if pk == nil || !strings.HasPrefix(pk.Path(), modPath) {
				return
			}
			seen[f] = true
			path = append(path, f)
			Instrs(f, func(in ssa.Instruction) {
				if _, ok := in.(*ssa.Panic); ok && !isSelectFallthroughPanic(in) {
					sites = append(sites, fmt.Sprintf("panic at %s via %s", p.InstrPos(in), pathString(path)))
				} else if noReturnCall(in) {
					sites = append(sites, fmt.Sprintf("%s at %s via %s", CalleeName(CallOf(in)), p.InstrPos(in), pathString(path)))
				}
				if CallOf(in) == nil {
					return
				}
				if _, isGo := in.(*ssa.Go); isGo {
					// goroutines started from request code: still a server crash if they panic
				}
				for _, cal := range p.callees(in) {
					if c.rv.Queues[cal] {
						continue
					}
					walk(cal, path)
				}
			})
		}
		walk(root, nil)
		if len(sites) == 0 {
			r.OK("C11.R5", FuncName(root), p.Pos(root.Pos()), fmt.Sprintf("no crash site in %d reachable module functions", len(seen)))
		} else {
			sort.Strings(sites)
			for _, s := range sites {
				r.Bad("C11.R5", FuncName(root)+" reaches "+strings.SplitN(s, " via ", 2)[0][:strings.Index(s, " at ")], strings.Fields(strings.SplitN(s, " at ", 2)[1])[0], "a deliberate crash site is reachable from request code: "+s)
			}
		}
	}
}
