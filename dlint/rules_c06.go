package main

import (
	"fmt"
	"go/token"
	"go/types"
	"sort"
	"strings"

	"golang.org/x/tools/go/ssa"
)

func init() {
	register(&RuleSet{
		Property: "C06",
		Explanation: "Decides the coupling between the reported writing state (WritingState.Active/Paused/file types) and what gates writing in every channel (DataPublisher pause flag and writer handles), for every path of the write-control code: " +
			"(R1) every function that installs a writer clears the per-channel pause flag, because a successful START reports Paused=false; " +
			"(R2) PAUSE/UNPAUSE: the per-channel pause setter is called on every processor in a range loop and every path from it to a return stores the same value in the reported state, and vice versa; STOP: the call that reports inactive is dominated by range loops that remove every writer handle from every processor; START: the call that reports active is dominated by the installing loop, the installers are guarded by exactly the configuration flags that are copied into the reported file types; " +
			"(R3) a request rejected with an error constructed in the write-control code has had no effect (no installer/remover/pause call, no store to the reported state) on any path; " +
			"(R4) in the publishing function all file-writing calls are dominated by the not-paused test while publication on the message channels is not; " +
			"(R5) installers run only after a range loop over all processors has rejected the request if any processor already has any writer; " +
			"(R6) only the write-control functions write the reported Active/Paused and the per-channel pause flag; (R7) a START's file pattern comes from a directory that was found not to exist and was then created. " +
			"Does not decide: run-directory numbering arithmetic, end-to-end behaviour over request histories with I/O failures inside WritingState.Start/Stop.",
		RuleDocs: []string{
			"C06.R9 transitive control dependence of each format's install / flush step: only on conditions about that format (aborting exits are not a way of skipping one format)",
			"C06.R1 sibling agreement of installers: store of false to the pause flag on every path",
			"C06.R2a pause setter over all processors is followed by the reported store of the same constant on every path to a return",
			"C06.R2b reported Paused store is dominated by the all-processor pause loop with the same constant",
			"C06.R2c reported inactive is dominated by all-processor removal of every handle",
			"C06.R2d reported active is dominated by the installing loop; installer guards = reported file-type flags",
			"C06.R3 no effect reaches a constructed-error return",
			"C06.R4 gate dominance in the publishing function",
			"C06.R5 universal has-writer guard loop dominates the installers",
			"C06.R6 who-may-write Active / Paused / pause flag",
			"C06.R2e the copy of the writing state made for clients assigns every exported bool field (active, paused, one flag per file type) from the field of the same name",
			"C06.R2c (helpers) a publisher method that calls the removers may skip them only under tests computed from the writer handles alone",
			"C06.R8 the activity predicate of the writing state returns the Active field unaltered (it guards record-length changes and side files as 'files are open')",
			"C06.R7 new numbered directory: success return dominated by os.IsNotExist(true) and MkdirAll; the pattern flows to all file names and to the reported state",
		},
		Run: runC06,
	})
}

type c06ctx struct {
	p          *Prog
	r          *Report
	pub        *types.Named // DataPublisher
	ws         *types.Named // WritingState
	handles    []string     // writer handle fields of DataPublisher
	pauseFlag  string
	procField  string // AnySource.processors
	installers map[*ssa.Function]string
	removers   map[*ssa.Function]string
	hasPred    map[*ssa.Function]string
	pauseSet   map[*ssa.Function]bool
}

func runC06(p *Prog, r *Report) {
	c := &c06ctx{p: p, r: r, installers: map[*ssa.Function]string{}, removers: map[*ssa.Function]string{}, hasPred: map[*ssa.Function]string{}, pauseSet: map[*ssa.Function]bool{}}
	if !c.anchors() {
		return
	}
	r.MinInstances["C06.R1"] = 3
	r.MinInstances["C06.R2a"] = 2
	r.MinInstances["C06.R2b"] = 2
	r.MinInstances["C06.R2c"] = 1
	r.MinInstances["C06.R2d"] = 2
	r.MinInstances["C06.R3"] = 3
	r.MinInstances["C06.R4"] = 3
	r.MinInstances["C06.R5"] = 3
	r.MinInstances["C06.R6"] = 3
	r.MinInstances["C06.R8"] = 1
	c.ruleR1()
	c.ruleR2()
	c.ruleR2e()
	c.ruleR3()
	c.ruleR4()
	c.ruleR5()
	c.ruleR6()
	c.ruleR7()
	c.ruleR8()
	c.ruleR9()
}

func (c *c06ctx) anchors() bool {
	p, r := c.p, c.r
	c.pub = p.NamedType("", "DataPublisher")
	c.ws = p.NamedType("", "WritingState")
	if c.pub == nil || c.ws == nil {
		r.Unk("C06.anchor", "types DataPublisher/WritingState", "-", "named anchors not found")
		return false
	}
	st := c.pub.Underlying().(*types.Struct)
	nbool := 0
	for i := 0; i < st.NumFields(); i++ {
		f := st.Field(i)
		if pt, ok := f.Type().(*types.Pointer); ok {
			if n, ok := pt.Elem().(*types.Named); ok && n.Obj().Pkg() != nil {
				pp := n.Obj().Pkg().Path()
				if strings.HasSuffix(pp, "/ljh") || strings.HasSuffix(pp, "/off") {
					c.handles = append(c.handles, f.Name())
				}
			}
		}
		if b, ok := f.Type().Underlying().(*types.Basic); ok && b.Kind() == types.Bool {
			c.pauseFlag = f.Name()
			nbool++
		}
	}
	if len(c.handles) == 0 || nbool != 1 {
		r.Unk("C06.anchor", "writer handles / pause flag", "-", fmt.Sprintf("found %d handle fields and %d bool fields in DataPublisher", len(c.handles), nbool))
		return false
	}
	// processors field: a []*T field where T embeds DataPublisher
	anyT := p.NamedType("", "AnySource")
	if anyT != nil {
		ast := anyT.Underlying().(*types.Struct)
		for i := 0; i < ast.NumFields(); i++ {
			if sl, ok := ast.Field(i).Type().(*types.Slice); ok {
				if pt, ok := sl.Elem().(*types.Pointer); ok {
					if es := derefStruct(pt.Elem()); es != nil {
						for j := 0; j < es.NumFields(); j++ {
							if es.Field(j).Embedded() && types.Identical(es.Field(j).Type(), c.pub) {
								c.procField = ast.Field(i).Name()
							}
						}
					}
				}
			}
		}
	}
	if c.procField == "" {
		r.Unk("C06.anchor", "processors field", "-", "no []*T field with T embedding DataPublisher")
		return false
	}
	isHandle := func(f string) bool {
		for _, h := range c.handles {
			if h == f {
				return true
			}
		}
		return false
	}
	// classify methods of DataPublisher
	for _, fn := range p.LibFuncs() {
		if fn.Signature.Recv() == nil || typeName(fn.Signature.Recv().Type()) != c.pub.Obj().Name() {
			continue
		}
		for _, h := range c.handles {
			for _, st := range StoresTo(fn, c.pub.Obj().Name(), h) {
				if cst, ok := st.Val.(*ssa.Const); ok && cst.Value == nil {
					c.removers[fn] = h
				} else {
					c.installers[fn] = h
				}
			}
		}
		// pause setter: stores a bool parameter to the pause flag
		for _, st := range StoresTo(fn, c.pub.Obj().Name(), c.pauseFlag) {
			if _, ok := st.Val.(*ssa.Parameter); ok {
				c.pauseSet[fn] = true
			}
		}
		// predicate: returns handle != nil
		if fn.Signature.Results().Len() == 1 && len(fn.Blocks) == 1 {
			if ret, ok := fn.Blocks[0].Instrs[len(fn.Blocks[0].Instrs)-1].(*ssa.Return); ok {
				if bo, ok := ret.Results[0].(*ssa.BinOp); ok && bo.Op == token.NEQ {
					if _, f, _, ok := FieldOf(bo.X); ok && isHandle(f) {
						c.hasPred[fn] = f
					}
				}
			}
		}
	}
	r.Notes = append(r.Notes, fmt.Sprintf("anchors: handles=%v pause flag=%s processors field=%s installers=%d removers=%d predicates=%d pause setters=%d",
		c.handles, c.pauseFlag, c.procField, len(c.installers), len(c.removers), len(c.hasPred), len(c.pauseSet)))
	if len(c.installers) < len(c.handles) || len(c.removers) < len(c.handles) || len(c.pauseSet) == 0 {
		r.Bad("C06.anchor", "installer/remover/pause-setter per handle", "-", "some writer handle has no installer or no remover, or there is no pause setter")
		return false
	}
	return true
}

func (c *c06ctx) overProcessors(l *RangeLoop) bool {
	_, f := l.OverField()
	return f == c.procField
}

// callOnElem: is `in` a call to one of fns whose receiver is the element of range loop l?
func callOnElem(in ssa.Instruction, l *RangeLoop, fns func(*ssa.Function) bool) bool {
	cc := CallOf(in)
	if cc == nil || cc.StaticCallee() == nil || !fns(cc.StaticCallee()) || len(cc.Args) == 0 {
		return false
	}
	return l.IsElem(cc.Args[0])
}

func sortedFuncs(m map[*ssa.Function]string) []*ssa.Function {
	var out []*ssa.Function
	for f := range m {
		out = append(out, f)
	}
	sort.Slice(out, func(i, j int) bool { return out[i].Pos() < out[j].Pos() })
	return out
}

// ---- R1 ---------------------------------------------------------------------------------

func (c *c06ctx) ruleR1() {
	p, r := c.p, c.r
	for _, fn := range sortedFuncs(c.installers) {
		r.Fn(FuncName(fn))
		isClear := func(in ssa.Instruction) bool {
			st, ok := in.(*ssa.Store)
			if !ok {
				return false
			}
			if _, f, _, ok := FieldOf(st.Addr); !ok || f != c.pauseFlag {
				if fa, isFA := st.Addr.(*ssa.FieldAddr); !isFA || derefStruct(fa.X.Type()).Field(fa.Field).Name() != c.pauseFlag {
					return false
				}
			}
			cst, isC := st.Val.(*ssa.Const)
			return isC && cst.Value != nil && cst.Value.String() == "false"
		}
		// the clearing store may sit in a helper method the installer calls (on every path of the helper)
		isClearDeep := func(in ssa.Instruction) bool {
			if isClear(in) {
				return true
			}
			if _, isGo := in.(*ssa.Go); isGo {
				return false
			}
			cc := CallOf(in)
			if cc == nil || !isModuleFn(cc.StaticCallee()) {
				return false
			}
			return len(ReachAvoiding(cc.StaticCallee(), nil, isClear, isReturn)) == 0
		}
		esc := ReachAvoiding(fn, nil, isClearDeep, isReturn)
		r.Check(len(esc) == 0, "C06.R1", FuncName(fn)+" clears "+c.pauseFlag, p.Pos(fn.Pos()),
			"installing the "+c.installers[fn]+" writer clears the per-channel pause flag",
			"installing the "+c.installers[fn]+" writer does not clear the per-channel pause flag: after PAUSE; STOP; START with only this file type the state reports active and unpaused while nothing is written")
	}
}

// ---- R2 ---------------------------------------------------------------------------------

func (c *c06ctx) storesWS(fn *ssa.Function, field string, val string) []*ssa.Store {
	var out []*ssa.Store
	for _, st := range StoresTo(fn, c.ws.Obj().Name(), field) {
		if cst, ok := st.Val.(*ssa.Const); ok && cst.Value != nil && cst.Value.String() == val {
			out = append(out, st)
		}
	}
	return out
}

// wsEvents: the instructions of fn that set WritingState.field to the constant val: a direct
// store, or a call of a module setter that always stores its parameter there
// (`ws.SetPaused(true)`), with the constant as the argument.
func (c *c06ctx) wsEvents(fn *ssa.Function, field, val string) []ssa.Instruction {
	var out []ssa.Instruction
	for _, st := range c.storesWS(fn, field, val) {
		out = append(out, st)
	}
	Instrs(fn, func(in ssa.Instruction) {
		cc := CallOf(in)
		if cc == nil || cc.IsInvoke() {
			return
		}
		if _, isGo := in.(*ssa.Go); isGo {
			return
		}
		h := cc.StaticCallee()
		if !isModuleFn(h) || len(h.Blocks) == 0 || len(h.Params) != len(cc.Args) || h == fn {
			return
		}
		for _, st := range StoresTo(h, c.ws.Obj().Name(), field) {
			prm, ok := st.Val.(*ssa.Parameter)
			if !ok || !alwaysExecutes(st) {
				continue
			}
			for i, q := range h.Params {
				if q != prm {
					continue
				}
				if cst, ok := cc.Args[i].(*ssa.Const); ok && cst.Value != nil && cst.Value.String() == val {
					out = append(out, in)
				}
			}
		}
	})
	return out
}

// setsWS: does calling fn store the constant into WritingState.field (directly or through static callees)?
func (c *c06ctx) setsWS(fn *ssa.Function, field, val string) bool {
	ok, _ := c.p.Reaches(fn, func(f *ssa.Function) bool { return len(c.storesWS(f, field, val)) > 0 }, 2)
	return ok
}

func (c *c06ctx) ruleR2() {
	p, r := c.p, c.r
	for _, fn := range p.LibFuncs() {
		if fnPkg(fn) != p.Root.Pkg {
			continue
		}
		loops := RangeLoops(fn)
		// R2a: pause setter calls
		Instrs(fn, func(in ssa.Instruction) {
			cc := CallOf(in)
			if cc == nil || cc.StaticCallee() == nil || !c.pauseSet[cc.StaticCallee()] {
				return
			}
			if fn.Signature.Recv() != nil && typeName(fn.Signature.Recv().Type()) == c.pub.Obj().Name() {
				return
			}
			r.Fn(FuncName(fn))
			cst, isC := cc.Args[len(cc.Args)-1].(*ssa.Const)
			if !isC || cst.Value == nil {
				r.Unk("C06.R2a", "pause setter call in "+FuncName(fn), p.InstrPos(in), "non-constant pause value")
				return
			}
			v := cst.Value.String()
			key := fmt.Sprintf("SetPause(%s) in %s", v, FuncName(fn))
			l := LoopContaining(loops, in)
			if l == nil || !c.overProcessors(l) || !l.IsElem(cc.Args[0]) || !l.EveryIteration(in.Block()) {
				r.Bad("C06.R2a", key, p.InstrPos(in), "the per-channel pause flag must be set on every processor (unconditional call on the element of a range loop over "+c.procField+")")
				return
			}
			isStore := func(x ssa.Instruction) bool {
				for _, s := range c.wsEvents(fn, "Paused", v) {
					if x == s {
						return true
					}
				}
				return false
			}
			esc := ReachAvoiding(fn, in, isStore, isReturn)
			if len(esc) > 0 {
				r.Bad("C06.R2a", key, p.InstrPos(in), fmt.Sprintf("after the channels' pause flag was set to %s a return at %s is reachable without reporting Paused=%s: reported state and behaviour diverge", v, p.InstrPos(esc[0]), v))
			} else {
				r.OK("C06.R2a", key, p.InstrPos(in), "all processors, then reported Paused="+v+" on every path")
			}
		})
		// R2b: reported Paused stores outside WritingState methods
		if fn.Signature.Recv() == nil || typeName(fn.Signature.Recv().Type()) != c.ws.Obj().Name() {
			for _, v := range []string{"true", "false"} {
				for _, st := range c.wsEvents(fn, "Paused", v) {
					r.Fn(FuncName(fn))
					good := false
					for _, l := range loops {
						if !c.overProcessors(l) || !(l.Done == st.Block() || l.Done.Dominates(st.Block())) {
							continue
						}
						Instrs(fn, func(x ssa.Instruction) {
							if l.Contains(x.Block()) && callOnElem(x, l, func(f *ssa.Function) bool { return c.pauseSet[f] }) && l.EveryIteration(x.Block()) {
								if cst, ok := CallOf(x).Args[len(CallOf(x).Args)-1].(*ssa.Const); ok && cst.Value != nil && cst.Value.String() == v {
									good = true
								}
							}
						})
					}
					r.Check(good, "C06.R2b", fmt.Sprintf("Paused=%s in %s", v, FuncName(fn)), p.InstrPos(st),
						"dominated by the loop that sets every channel's pause flag to the same value",
						"the reported Paused="+v+" is not preceded by setting the pause flag of every processor to "+v)
				}
			}
		}
		// R2c / R2d: calls that report inactive / active
		Instrs(fn, func(in ssa.Instruction) {
			cc := CallOf(in)
			if cc == nil || cc.StaticCallee() == nil {
				return
			}
			callee := cc.StaticCallee()
			if fn.Signature.Recv() != nil && typeName(fn.Signature.Recv().Type()) == c.ws.Obj().Name() {
				return // internal to WritingState
			}
			if callee.Signature.Recv() == nil || typeName(callee.Signature.Recv().Type()) != c.ws.Obj().Name() {
				return
			}
			if c.setsWS(callee, "Active", "false") && !c.setsWS(callee, "Active", "true") {
				r.Fn(FuncName(fn))
				missing := []string{}
				mixedWhy := ""
				for _, h := range c.handles {
					ok := false
					for _, l := range loops {
						if !c.overProcessors(l) || !(l.Done == in.Block() || l.Done.Dominates(in.Block())) {
							continue
						}
						Instrs(fn, func(x ssa.Instruction) {
							if l.Contains(x.Block()) && l.EveryIteration(x.Block()) && callOnElem(x, l, func(f *ssa.Function) bool {
								if c.removers[f] == h {
									return true
								}
								okH, why := c.helperRemoves(f, h)
								if why != "" {
									mixedWhy = why
								}
								return okH
							}) {
								ok = true
							}
						})
					}
					if !ok {
						missing = append(missing, h)
					}
				}
				extraWhy := ""
				if mixedWhy != "" {
					extraWhy = " (" + mixedWhy + ")"
				}
				r.Check(len(missing) == 0, "C06.R2c", "reported inactive in "+FuncName(fn), p.InstrPos(in),
					"every writer handle is removed from every processor before the state reports inactive",
					"the state is reported inactive (and may return an error) before the "+strings.Join(missing, ", ")+" writers were removed from every processor"+extraWhy+": channels keep writing while the state says stopped")
			}
			if c.setsWS(callee, "Active", "true") {
				r.Fn(FuncName(fn))
				// installing loop dominates
				var loop *RangeLoop
				flags := map[string]bool{}
				installed := map[string]bool{}
				for _, l := range loops {
					if !c.overProcessors(l) || !(l.Done == in.Block() || l.Done.Dominates(in.Block())) {
						continue
					}
					Instrs(fn, func(x ssa.Instruction) {
						if !l.Contains(x.Block()) || !callOnElem(x, l, func(f *ssa.Function) bool { return c.installers[f] != "" }) {
							return
						}
						loop = l
						installed[c.installers[CallOf(x).StaticCallee()]] = true
						// guards: bool fields of a *config parameter among the controlling conditions inside the loop
						for _, ci := range controllingIfs(x.Block()) {
							if !l.Contains(ci.If.Block()) {
								continue
							}
							for _, fl := range condFieldLoads(ci.If.Cond) {
								flags[fl] = true
							}
						}
					})
				}
				if loop == nil {
					r.Bad("C06.R2d", "reported active in "+FuncName(fn), p.InstrPos(in), "the state is reported active without a preceding loop over all processors that installs the writers")
					return
				}
				var miss []string
				for _, h := range c.handles {
					if !installed[h] {
						miss = append(miss, h)
					}
				}
				r.Check(len(miss) == 0, "C06.R2d", "reported active in "+FuncName(fn), p.InstrPos(in), "installing loop over all processors dominates the report", "no installer for "+strings.Join(miss, ", ")+" in the loop that precedes reporting active")
				// reported flags in the callee: WritingState.X = config.X for every guard flag
				copied := map[string]bool{}
				Instrs(callee, func(x ssa.Instruction) {
					st, ok := x.(*ssa.Store)
					if !ok {
						return
					}
					o, f, _, ok := FieldOf(st.Addr)
					if !ok {
						if fa, isFA := st.Addr.(*ssa.FieldAddr); isFA {
							o, f, ok = ownerName(fa.X.Type()), derefStruct(fa.X.Type()).Field(fa.Field).Name(), true
						}
					}
					if !ok || o != c.ws.Obj().Name() {
						return
					}
					if _, sf, _, ok := FieldOf(st.Val); ok && sf == f {
						copied[f] = true
					}
					// the flag handed in as an argument of this call
					if prm, isPrm := st.Val.(*ssa.Parameter); isPrm {
						if cc := CallOf(in); cc != nil && len(cc.Args) == len(callee.Params) {
							for k, pp := range callee.Params {
								if pp == prm {
									if _, sf, _, ok := FieldOf(cc.Args[k]); ok && sf == f {
										copied[f] = true
									}
								}
							}
						}
					}
				})
				var fl []string
				for f := range flags {
					if strings.HasPrefix(f, "Write") {
						fl = append(fl, f)
					}
				}
				sort.Strings(fl)
				var notCopied []string
				for _, f := range fl {
					if !copied[f] {
						notCopied = append(notCopied, f)
					}
				}
				r.Check(len(fl) >= len(c.handles) && len(notCopied) == 0, "C06.R2d", "file-type flags reported = flags that gate the installers in "+FuncName(fn), p.InstrPos(in),
					fmt.Sprintf("guards %v are copied to the reported state under the same names", fl),
					fmt.Sprintf("installer guards %v vs reported copies: %v not copied (or fewer guards than handles): the reported file types differ from the writers installed", fl, notCopied))
			}
		})
	}
}

// condFieldLoads returns the names of struct fields loaded (through a pointer parameter) in a condition.
func condFieldLoads(v ssa.Value) []string {
	var out []string
	seen := map[ssa.Value]bool{}
	var walk func(v ssa.Value)
	walk = func(v ssa.Value) {
		if v == nil || seen[v] {
			return
		}
		seen[v] = true
		switch x := v.(type) {
		case *ssa.UnOp:
			if x.Op == token.MUL {
				if _, f, base, ok := FieldOf(x); ok {
					if _, isP := base.(*ssa.Parameter); isP {
						out = append(out, f)
					}
				}
				return
			}
			walk(x.X)
		case *ssa.BinOp:
			walk(x.X)
			walk(x.Y)
		case *ssa.Phi:
			for _, e := range x.Edges {
				walk(e)
			}
		}
	}
	walk(v)
	return out
}

// ---- R3 ---------------------------------------------------------------------------------

func (c *c06ctx) isEffect(in ssa.Instruction) string {
	if st, ok := in.(*ssa.Store); ok {
		if o, f, _, ok := FieldOf(st.Addr); ok && o == c.ws.Obj().Name() {
			return "store to " + o + "." + f
		}
		if fa, ok := st.Addr.(*ssa.FieldAddr); ok && ownerName(fa.X.Type()) == c.ws.Obj().Name() {
			return "store to " + c.ws.Obj().Name() + "." + derefStruct(fa.X.Type()).Field(fa.Field).Name()
		}
	}
	cc := CallOf(in)
	if cc == nil || cc.StaticCallee() == nil {
		return ""
	}
	f := cc.StaticCallee()
	if c.installers[f] != "" || c.removers[f] != "" || c.pauseSet[f] {
		return "call to " + FuncName(f)
	}
	if f.Signature.Recv() != nil && typeName(f.Signature.Recv().Type()) == c.ws.Obj().Name() {
		eff := c.p.TransEffects(f, nil, nil)
		for k := range eff.W {
			if k.Owner == c.ws.Obj().Name() {
				return "call to " + FuncName(f) + " (writes " + k.String() + ")"
			}
		}
	}
	return ""
}

func constructedError(v ssa.Value) bool {
	switch x := v.(type) {
	case *ssa.Call:
		n := CalleeName(&x.Call)
		return n == "fmt.Errorf" || n == "errors.New"
	case *ssa.MakeInterface:
		// a struct literal implementing error (mapError{...})
		if _, isConst := x.X.(*ssa.Const); isConst {
			return false
		}
		switch x.X.(type) {
		case *ssa.UnOp, *ssa.Alloc:
			return true
		}
	}
	return false
}

func (c *c06ctx) ruleR3() {
	p, r := c.p, c.r
	// the write-control functions: root-package functions that call installers/removers/pause setters on processors
	for _, fn := range p.LibFuncs() {
		if fnPkg(fn) != p.Root.Pkg {
			continue
		}
		if fn.Signature.Recv() != nil {
			tn := typeName(fn.Signature.Recv().Type())
			if tn == c.pub.Obj().Name() || tn == c.ws.Obj().Name() {
				continue
			}
		}
		var effects []ssa.Instruction
		Instrs(fn, func(in ssa.Instruction) {
			if c.isEffect(in) != "" {
				effects = append(effects, in)
			}
		})
		// only the write-control functions: those that install, remove, pause or (de)activate
		isWC := false
		for _, e := range effects {
			if cc := CallOf(e); cc != nil && cc.StaticCallee() != nil {
				f := cc.StaticCallee()
				if c.installers[f] != "" || c.removers[f] != "" || c.pauseSet[f] || c.setsWS(f, "Active", "true") || c.setsWS(f, "Active", "false") {
					isWC = true
				}
			}
		}
		if !isWC {
			continue
		}
		r.Fn(FuncName(fn))
		Instrs(fn, func(in ssa.Instruction) {
			ret, ok := in.(*ssa.Return)
			if !ok || len(ret.Results) == 0 {
				return
			}
			ev := ret.Results[len(ret.Results)-1]
			if !isErrorType(ev.Type()) {
				return
			}
			if !constructedError(ev) {
				// the verdict of a validation helper that changes nothing itself, passed on
				ec := errCall(ev)
				if ec == nil || !isModuleFn(ec.Call.StaticCallee()) || len(p.TransEffects(ec.Call.StaticCallee(), nil, nil).W) > 0 {
					return
				}
				constructs := false
				Instrs(ec.Call.StaticCallee(), func(x ssa.Instruction) {
					if rt, ok := x.(*ssa.Return); ok && len(rt.Results) > 0 && constructedError(rt.Results[len(rt.Results)-1]) {
						constructs = true
					}
				})
				if !constructs {
					return
				}
			}
			key := fmt.Sprintf("rejection in %s", FuncName(fn))
			bad := ""
			for _, e := range effects {
				if InstrReaches(e, in) {
					bad = c.isEffect(e) + " at " + p.InstrPos(e)
				}
			}
			r.Check(bad == "", "C06.R3", key, p.InstrPos(in), "no effect on any path to this rejection",
				"a request can be rejected here after it already took effect ("+bad+"): the caller is told the request failed while behaviour or reported state changed")
		})
	}
}

// ---- R4 ---------------------------------------------------------------------------------

func (c *c06ctx) ruleR4() {
	p, r := c.p, c.r
	for _, fn := range p.LibFuncs() {
		if fn.Signature.Recv() == nil || typeName(fn.Signature.Recv().Type()) != c.pub.Obj().Name() {
			continue
		}
		// the publishing function: calls methods of writer handle types inside a loop
		type wcall struct {
			in  ssa.Instruction
			h   string
			top ssa.Instruction // the instruction of fn that leads to the call (itself, or the call of a helper)
		}
		var wcalls []wcall
		var sends []ssa.Instruction
		Instrs(fn, func(in ssa.Instruction) {
			if s, ok := in.(*ssa.Send); ok {
				if _, f, _, ok := FieldOf(s.Chan); ok && f != "" {
					sends = append(sends, in)
				}
			}
		})
		InstrsDeep(fn, 2, func(di DeepInstr) {
			in := di.In
			if len(di.Path) > 0 {
				// only helpers that are methods of the publisher itself (the per-format store steps)
				if rc := in.Parent().Signature.Recv(); rc == nil || typeName(rc.Type()) != c.pub.Obj().Name() {
					return
				}
			}
			cc := CallOf(in)
			if cc == nil || cc.StaticCallee() == nil || len(cc.Args) == 0 {
				return
			}
			if _, f, _, ok := FieldOf(cc.Args[0]); ok {
				for _, h := range c.handles {
					if h == f {
						n := cc.StaticCallee().Name()
						if strings.HasPrefix(n, "Write") || strings.HasPrefix(n, "Create") {
							wcalls = append(wcalls, wcall{in, h, di.Top})
						}
					}
				}
			}
		})
		if len(wcalls) == 0 || len(sends) == 0 {
			continue
		}
		r.Fn(FuncName(fn))
		// the not-paused region: false successor of `if dp.<pauseFlag>`
		var region *ssa.BasicBlock
		Instrs(fn, func(in ssa.Instruction) {
			if iff, ok := in.(*ssa.If); ok {
				if _, f, _, ok := FieldOf(iff.Cond); ok && f == c.pauseFlag {
					region = iff.Block().Succs[1]
				}
			}
		})
		// ... or the side of a test of a publisher predicate that can only be true when not paused
		if region == nil {
			Instrs(fn, func(in ssa.Instruction) {
				iff, ok := in.(*ssa.If)
				if !ok || region != nil {
					return
				}
				cond, neg := iff.Cond, false
				for {
					u, isU := cond.(*ssa.UnOp)
					if !isU || u.Op != token.NOT {
						break
					}
					cond, neg = u.X, !neg
				}
				call, ok := cond.(*ssa.Call)
				if !ok || call.Call.StaticCallee() == nil || !isModuleFn(call.Call.StaticCallee()) {
					return
				}
				if trueImpliesFlagFalse(call.Call.StaticCallee(), c.pauseFlag) {
					k := 0
					if neg {
						k = 1
					}
					region = iff.Block().Succs[k]
				}
			})
		}
		perHandle := map[string]bool{}
		for _, w := range wcalls {
			good := region != nil && (region == w.top.Block() || region.Dominates(w.top.Block()))
			// presence test of the same handle dominates (in the helper, or around the helper's call)
			present := false
			for _, blk := range []*ssa.BasicBlock{w.in.Block(), w.top.Block()} {
				for _, ci := range controllingIfs(blk) {
					if call, ok := ci.If.Cond.(*ssa.Call); ok && call.Call.StaticCallee() != nil && c.hasPred[call.Call.StaticCallee()] == w.h && ci.Branch == 0 {
						present = true
					}
					// the predicate written out: <handle> != nil (the field itself or the value just read from it)
					if bo, ok := ci.If.Cond.(*ssa.BinOp); ok && (bo.Op == token.NEQ || bo.Op == token.EQL) {
						var other ssa.Value
						if k, isC := bo.Y.(*ssa.Const); isC && k.Value == nil {
							other = bo.X
						} else if k, isC := bo.X.(*ssa.Const); isC && k.Value == nil {
							other = bo.Y
						}
						if other != nil {
							_, f, _, okf := FieldOf(other)
							if (okf && f == w.h) || other == CallOf(w.in).Args[0] {
								if (bo.Op == token.NEQ && ci.Branch == 0) || (bo.Op == token.EQL && ci.Branch == 1) {
									present = true
								}
							}
						}
					}
				}
			}
			key := fmt.Sprintf("%s.%s in %s", w.h, CallOf(w.in).StaticCallee().Name(), FuncName(fn))
			if !perHandle[key] {
				perHandle[key] = true
				r.Check(good && present, "C06.R4", key, p.InstrPos(w.in), "file writing only when not paused and the writer is installed",
					"a file-writing call is not dominated by the not-paused test and the presence test of its writer: records are stored while the state says paused (or a nil writer is used)")
			}
		}
		for _, s := range sends {
			good := region == nil || !(region == s.Block() || region.Dominates(s.Block()))
			r.Check(good, "C06.R4", "publication in "+FuncName(fn), p.InstrPos(s), "records are published on the message channels whether or not writing is paused", "publication on the message channel is gated by the pause flag")
		}
	}
}

// ---- R5 ---------------------------------------------------------------------------------

func (c *c06ctx) ruleR5() {
	p, r := c.p, c.r
	for _, fn := range p.LibFuncs() {
		if fnPkg(fn) != p.Root.Pkg {
			continue
		}
		if fn.Signature.Recv() != nil && typeName(fn.Signature.Recv().Type()) == c.pub.Obj().Name() {
			continue
		}
		guarded := c.guardLoops(fn)
		Instrs(fn, func(in ssa.Instruction) {
			cc := CallOf(in)
			if cc == nil || cc.StaticCallee() == nil || c.installers[cc.StaticCallee()] == "" {
				return
			}
			h := c.installers[cc.StaticCallee()]
			r.Fn(FuncName(fn))
			var missing []string
			for _, hh := range c.handles {
				g := guarded[hh]
				if g == nil || !(g.Done == in.Block() || g.Done.Dominates(in.Block())) {
					if !c.guardedByHelper(fn, hh, in.Block()) {
						missing = append(missing, hh)
					}
				}
			}
			r.Check(len(missing) == 0, "C06.R5", "install "+h+" in "+FuncName(fn), p.InstrPos(in),
				"dominated by a loop over all processors that rejects the request if any has a writer",
				"writers are installed without first checking every processor for an existing "+strings.Join(missing, "/")+" writer (writer sets differ per channel, e.g. OFF only where projectors exist): a START while active can be accepted, orphaning open files and overwriting the reported state")
		})
	}
}

// guardLoops: the range loops over all processors in fn whose body rejects the request (returns
// a non-nil error) when the has-writer predicate of a handle holds for the element.
func (c *c06ctx) guardLoops(fn *ssa.Function) map[string]*RangeLoop {
	guarded := map[string]*RangeLoop{}
	for _, l := range RangeLoops(fn) {
		if !c.overProcessors(l) {
			continue
		}
		Instrs(fn, func(in ssa.Instruction) {
			call, ok := in.(*ssa.Call)
			if !ok || !l.Contains(in.Block()) || call.Call.StaticCallee() == nil {
				return
			}
			h := c.hasPred[call.Call.StaticCallee()]
			if h == "" || !l.IsElem(call.Call.Args[0]) {
				return
			}
			// the true outcome must lead to an error return inside the loop
			for _, ref := range *call.Referrers() {
				iff, ok := ref.(*ssa.If)
				if !ok {
					continue
				}
				hits := reachFromBlock(iff.Block().Succs[0], func(x ssa.Instruction) bool { return x.Block() == l.Header }, func(x ssa.Instruction) bool {
					ret, ok := x.(*ssa.Return)
					if !ok || len(ret.Results) == 0 {
						return false
					}
					cst, isC := ret.Results[len(ret.Results)-1].(*ssa.Const)
					return !(isC && cst.Value == nil)
				})
				cont := reachFromBlock(iff.Block().Succs[0], func(x ssa.Instruction) bool { return isReturn(x) }, func(x ssa.Instruction) bool { return x.Block() == l.Header })
				// universal: no iteration gets round to the next one without having asked this
				// question, and the loop is not left early (break) with channels still unchecked
				skips := reachFromBlock(l.Body, func(x ssa.Instruction) bool { return x == ssa.Instruction(call) || isReturn(x) }, func(x ssa.Instruction) bool { return x.Block() == l.Header })
				early := false
				for _, b := range fn.Blocks {
					if b == l.Header || !l.Contains(b) {
						continue
					}
					for _, sc := range b.Succs {
						if !l.Contains(sc) {
							last := sc.Instrs[len(sc.Instrs)-1]
							if _, isRet := last.(*ssa.Return); !isRet {
								early = true
							}
						}
					}
				}
				if len(hits) > 0 && len(cont) == 0 && len(skips) == 0 && !early {
					guarded[h] = l
				}
			}
		})
	}
	return guarded
}

// guardedByHelper: block b of fn is reached only after a validation helper (a module function
// whose every success return follows the completed guard loop of handle h) returned a nil error.
func (c *c06ctx) guardedByHelper(fn *ssa.Function, h string, b *ssa.BasicBlock) bool {
	found := false
	Instrs(fn, func(in ssa.Instruction) {
		call, ok := in.(*ssa.Call)
		if !ok || found || !isModuleFn(call.Call.StaticCallee()) {
			return
		}
		callee := call.Call.StaticCallee()
		res := callee.Signature.Results()
		if res.Len() == 0 || !isErrorType(res.At(res.Len()-1).Type()) || !nilEdgeDominates(call, b) {
			return
		}
		l := c.guardLoops(callee)[h]
		if l == nil {
			return
		}
		// the helper looks at the same processors: same receiver passed on
		if len(call.Call.Args) == 0 || len(fn.Params) == 0 || resolveCell(call.Call.Args[0]) != ssa.Value(fn.Params[0]) {
			return
		}
		okAll, n := true, 0
		Instrs(callee, func(x ssa.Instruction) {
			ret, isRet := x.(*ssa.Return)
			if !isRet || len(ret.Results) == 0 {
				return
			}
			ev := returnedValue(ret, len(ret.Results)-1)
			if cst, isC := ev.(*ssa.Const); isC && cst.Value == nil {
				n++
				if !(l.Done == ret.Block() || l.Done.Dominates(ret.Block())) {
					okAll = false
				}
			} else if !definitelyNonNilError(ev) && !constructedError(ev) {
				okAll = false
			}
		})
		if okAll && n > 0 {
			c.r.Fn(FuncName(callee))
			found = true
		}
	})
	return found
}

// ---- R6 ---------------------------------------------------------------------------------

func (c *c06ctx) ruleR6() {
	p, r := c.p, c.r
	// allowed writers of WritingState.Active/Paused: methods of WritingState, and functions that also
	// set every processor's pause flag (checked by R2b); of the pause flag: methods of DataPublisher.
	for _, field := range []string{"Active", "Paused"} {
		var bad []string
		n := 0
		for _, fn := range p.LibFuncs() {
			sts := StoresTo(fn, c.ws.Obj().Name(), field)
			if len(sts) == 0 {
				continue
			}
			n++
			if fn.Signature.Recv() != nil && typeName(fn.Signature.Recv().Type()) == c.ws.Obj().Name() {
				continue
			}
			if field == "Paused" {
				has := false
				Instrs(fn, func(in ssa.Instruction) {
					if cc := CallOf(in); cc != nil && cc.StaticCallee() != nil && c.pauseSet[cc.StaticCallee()] {
						has = true
					}
				})
				if has {
					continue
				}
			}
			bad = append(bad, FuncName(fn)+" at "+p.InstrPos(sts[0]))
		}
		r.Check(len(bad) == 0 && n > 0, "C06.R6", "writers of WritingState."+field, "-", fmt.Sprintf("%d writer function(s), all in the write-control code", n), "reported "+field+" is written outside the write-control code: "+strings.Join(bad, "; "))
	}
	var bad []string
	n := 0
	for _, fn := range p.LibFuncs() {
		sts := StoresTo(fn, c.pub.Obj().Name(), c.pauseFlag)
		if len(sts) == 0 {
			continue
		}
		n++
		if fn.Signature.Recv() == nil || typeName(fn.Signature.Recv().Type()) != c.pub.Obj().Name() {
			bad = append(bad, FuncName(fn)+" at "+p.InstrPos(sts[0]))
		} else if !c.pauseSet[fn] && c.installers[fn] == "" {
			// a helper that only the pause setter and the installers call is part of them
			onlyAllowed, ncall := true, 0
			for _, cf := range p.LibFuncs() {
				Instrs(cf, func(in ssa.Instruction) {
					if cc := CallOf(in); cc != nil && cc.StaticCallee() == fn {
						ncall++
						if !(c.pauseSet[cf] || c.installers[cf] != "") {
							onlyAllowed = false
						}
					}
				})
			}
			onlyAllowed = onlyAllowed && ncall > 0
			if !onlyAllowed {
				bad = append(bad, FuncName(fn)+" at "+p.InstrPos(sts[0]))
			}
		}
	}
	r.Check(len(bad) == 0 && n > 0, "C06.R6", "writers of the per-channel pause flag", "-", fmt.Sprintf("%d writer function(s): the pause setter and the installers", n), "the per-channel pause flag is written by "+strings.Join(bad, "; ")+" (neither the pause setter nor an installer)")
}

// ---- R7 ---------------------------------------------------------------------------------

func (c *c06ctx) ruleR7() {
	p, r := c.p, c.r
	// the directory maker: function that calls os.Stat, os.IsNotExist and os.MkdirAll
	var mk *ssa.Function
	for _, fn := range p.LibFuncs() {
		if fnPkg(fn) != p.Root.Pkg {
			continue
		}
		var a, b, d bool
		Instrs(fn, func(in ssa.Instruction) {
			a = a || IsCallTo(in, "os.Stat")
			b = b || IsCallTo(in, "os.IsNotExist")
			d = d || IsCallTo(in, "os.MkdirAll")
		})
		if a && b && d {
			mk = fn
		}
	}
	if mk == nil {
		r.Bad("C06.R7", "run-directory maker", "-", "no function tests a directory for non-existence and then creates it")
		return
	}
	r.Fn(FuncName(mk))
	good := true
	msg := ""
	n := 0
	Instrs(mk, func(in ssa.Instruction) {
		ret, ok := in.(*ssa.Return)
		if !ok || len(ret.Results) != 2 {
			return
		}
		if cst, isC := ret.Results[1].(*ssa.Const); !isC || cst.Value != nil {
			return
		}
		n++
		// success return: dominated by the true branch of os.IsNotExist(err-of-Stat) and by MkdirAll of the same dir
		dom := false
		var statArg ssa.Value
		for _, ci := range controllingIfs(in.Block()) {
			call, ok := ci.If.Cond.(*ssa.Call)
			if ok && CalleeName(&call.Call) == "os.IsNotExist" && ci.Branch == 0 {
				if ex, ok := call.Call.Args[0].(*ssa.Extract); ok {
					if sc, ok := ex.Tuple.(*ssa.Call); ok && CalleeName(&sc.Call) == "os.Stat" {
						statArg = sc.Call.Args[0]
						dom = true
					}
				}
			}
		}
		mkd := false
		Instrs(mk, func(x ssa.Instruction) {
			if IsCallTo(x, "os.MkdirAll") && InstrDominates(x, in) && CallOf(x).Args[0] == statArg {
				mkd = true
			}
		})
		// the returned pattern derives from the same directory value
		derives := false
		seen := map[ssa.Value]bool{}
		var walk func(v ssa.Value)
		walk = func(v ssa.Value) {
			if v == nil || seen[v] {
				return
			}
			seen[v] = true
			if v == statArg {
				derives = true
				return
			}
			var ops []*ssa.Value
			if instr, ok := v.(ssa.Instruction); ok {
				ops = instr.Operands(ops)
				for _, o := range ops {
					walk(*o)
				}
			}
		}
		walk(ret.Results[0])
		// varargs slices: follow stores into the backing array
		if !derives && statArg != nil {
			Instrs(mk, func(x ssa.Instruction) {
				if st, ok := x.(*ssa.Store); ok && InstrDominates(x, in) {
					if mi, ok := st.Val.(*ssa.MakeInterface); ok && mi.X == statArg {
						derives = true
					}
					if st.Val == statArg {
						derives = true
					}
				}
			})
		}
		if !dom || !mkd || !derives {
			good = false
			msg = fmt.Sprintf("success return at %s: not-exist test dominates=%v, MkdirAll of that directory dominates=%v, pattern derives from it=%v", p.InstrPos(in), dom, mkd, derives)
		}
	})
	r.Check(good && n > 0, "C06.R7", FuncName(mk)+" returns only a newly created directory", p.Pos(mk.Pos()), "success is returned only for a directory that did not exist and was created", msg)
	// every START uses it: functions that call installers obtain their file-name pattern from mk
	for _, fn := range p.LibFuncs() {
		uses := false
		var mkCall *ssa.Call
		Instrs(fn, func(in ssa.Instruction) {
			if cc := CallOf(in); cc != nil && cc.StaticCallee() != nil && c.installers[cc.StaticCallee()] != "" && fnPkg(fn) == p.Root.Pkg {
				if fn.Signature.Recv() == nil || typeName(fn.Signature.Recv().Type()) != c.pub.Obj().Name() {
					uses = true
				}
			}
			if call, ok := in.(*ssa.Call); ok && call.Call.StaticCallee() == mk {
				mkCall = call
			}
		})
		if !uses {
			continue
		}
		r.Fn(FuncName(fn))
		if mkCall == nil {
			r.Bad("C06.R7", FuncName(fn)+" writes into a new directory", p.Pos(fn.Pos()), "writers are installed without creating a new numbered run directory")
			continue
		}
		var pattern ssa.Value
		for _, ref := range *mkCall.Referrers() {
			if e, ok := ref.(*ssa.Extract); ok && e.Index == 0 {
				pattern = e
			}
		}
		// every fmt.Sprintf producing a file name uses the pattern as its format; the reporting call receives it
		okAll := pattern != nil
		cnt := 0
		Instrs(fn, func(in ssa.Instruction) {
			// the file name given to an installer: fmt.Sprintf(pattern, ...) directly, or through
			// a one-line helper / closure that formats it
			call, isCall := in.(*ssa.Call)
			if !isCall {
				return
			}
			fmtCall := call
			var path []ssa.Instruction
			if !IsCallTo(in, "fmt.Sprintf") {
				h := call.Call.StaticCallee()
				if !isModuleFn(h) || len(h.Blocks) != 1 {
					return
				}
				inner, _ := singleReturn(h).(*ssa.Call)
				if inner == nil || CalleeName(&inner.Call) != "fmt.Sprintf" {
					return
				}
				fmtCall = inner
				path = []ssa.Instruction{call}
			}
			// only results that flow into installer calls
			flows := false
			for _, ref := range *call.Referrers() {
				if cc := CallOf(ref); cc != nil && cc.StaticCallee() != nil && c.installers[cc.StaticCallee()] != "" {
					flows = true
				}
			}
			if !flows {
				return
			}
			cnt++
			if resolveCell(ArgForParam(path, fmtCall.Call.Args[0])) != pattern {
				okAll = false
			}
		})
		r.Check(okAll && cnt >= len(c.handles), "C06.R7", FuncName(fn)+" writes into a new directory", p.InstrPos(mkCall),
			fmt.Sprintf("%d file names are formatted from the pattern of the newly created directory", cnt),
			"a writer's file name is not derived from the pattern returned for the newly created run directory")
	}
}

// ---- R8: the activity predicate is the reported Active flag itself ---------------------------

// ruleR8: every bool-returning method without parameters of the writing-state type (and of the
// source types, which forward to it) whose result depends on the Active field returns exactly
// that field.  Code outside write control relies on it as "files are open": the guard that
// refuses a record-length change while writing, and the side-file writers.  Since R2c/R2d tie
// Active to the installed file handles, a weaker predicate (Active && !Paused) lets the record
// lengths change under open files whose headers state the old lengths.
func (c *c06ctx) ruleR8() {
	p, r := c.p, c.r
	n := 0
	for _, fn := range p.LibFuncs() {
		if fn.Signature.Recv() == nil || typeName(fn.Signature.Recv().Type()) != "WritingState" {
			continue
		}
		if fn.Signature.Params().Len() != 0 || fn.Signature.Results().Len() != 1 {
			continue
		}
		if b, ok := fn.Signature.Results().At(0).Type().Underlying().(*types.Basic); !ok || b.Kind() != types.Bool {
			continue
		}
		loadsActive := false
		Instrs(fn, func(in ssa.Instruction) {
			if u, ok := in.(*ssa.UnOp); ok && u.Op == token.MUL {
				if o, f, _, isF := FieldOf(u); isF && o == "WritingState" && f == "Active" {
					loadsActive = true
				}
			}
		})
		if !loadsActive {
			continue
		}
		n++
		r.Fn(FuncName(fn))
		// who relies on it as "files are open": the forwarding methods named WritingIsActive (the
		// guard of record-length changes) and the source's Stop; a predicate used only elsewhere
		// (e.g. "are records being stored right now") may combine Active with the pause flag
		sites, _ := p.staticCallSites(fn)
		reliedOn := len(sites) == 0
		usedBy := ""
		for _, site := range sites {
			top := site.Parent()
			for top.Parent() != nil {
				top = top.Parent()
			}
			if top.Name() == "WritingIsActive" || top.Name() == "Stop" || top.Name() == "ConfigurePulseLengths" {
				reliedOn = true
				usedBy = FuncName(top)
			}
		}
		// every value that can be returned: direct results, or stores into the spilled result cell
		var vals []ssa.Value
		Instrs(fn, func(in ssa.Instruction) {
			ret, ok := in.(*ssa.Return)
			if !ok {
				return
			}
			v := ret.Results[0]
			if u, isU := v.(*ssa.UnOp); isU && u.Op == token.MUL {
				if a, isA := u.X.(*ssa.Alloc); isA {
					for _, ref := range *a.Referrers() {
						if st, isSt := ref.(*ssa.Store); isSt && st.Addr == ssa.Value(a) {
							vals = append(vals, st.Val)
						}
					}
					return
				}
			}
			vals = append(vals, v)
		})
		pure := len(vals) > 0
		var isActiveLoad func(v ssa.Value, d int) bool
		isActiveLoad = func(v ssa.Value, d int) bool {
			if d > 4 {
				return false
			}
			if ph, ok := v.(*ssa.Phi); ok {
				for _, e := range ph.Edges {
					if !isActiveLoad(e, d+1) {
						return false
					}
				}
				return true
			}
			o, f, _, isF := FieldOf(v)
			return isF && o == "WritingState" && f == "Active"
		}
		for _, v := range vals {
			if !isActiveLoad(v, 0) {
				pure = false
			}
		}
		if !pure && !reliedOn {
			r.OK("C06.R8", FuncName(fn)+" returns the Active flag unaltered", p.Pos(fn.Pos()), "combines Active with other state, but is not what the stop step or the record-length guard ask")
			continue
		}
		r.Check(pure, "C06.R8", FuncName(fn)+" returns the Active flag unaltered", p.Pos(fn.Pos()), "result is the Active field on every path",
			"the predicate combines Active with something else: while files are open (Active) it can answer false"+map[bool]string{true: " to " + usedBy + ", which asks it whether files are open", false: ""}[usedBy != ""]+": a paused session is then not stopped when the source stops (its files stay open), and the guard that refuses a change of record length during writing lets it through, so records of the new lengths are appended to files whose headers state the old ones")
	}
	if n == 0 {
		r.Bad("C06.R8", "activity predicate", "-", "no predicate of the writing state reads the Active flag")
	}
}

// ---- R9: each output format is handled on its own -------------------------------------------

// ruleR9: installing the writers of one channel, and flushing them, treats the formats
// independently: whether the LJH3 writer of a channel is installed (flushed) may depend on the
// LJH3 request flag / the presence of the LJH3 writer, never on a test about another format
// (its request flag, its presence, or the projectors that only OFF needs).  A `continue` or a
// `switch` that makes one format's step skip the others' is reported.  Control dependence is
// computed on the flow graph (a block depends on a branch outcome when it is always reached
// from that outcome and can be avoided from the other), within one loop iteration.
func (c *c06ctx) ruleR9() {
	p, r := c.p, c.r
	about := func(cond ssa.Value) map[string]bool {
		out := map[string]bool{}
		d := c05Describe(cond, nil, 0)
		if call, ok := cond.(*ssa.Call); ok && call.Call.StaticCallee() != nil {
			if h := c.hasPred[call.Call.StaticCallee()]; h != "" {
				out[h] = true
			}
			if strings.Contains(call.Call.StaticCallee().Name(), "HasProjectors") {
				out["OFF"] = true
			}
		}
		for _, h := range c.handles {
			if strings.Contains(d, "Write"+h) || strings.Contains(d, "Has"+h+"(") || strings.HasSuffix(d, "."+h) || strings.Contains(d, "."+h+" ") || strings.Contains(d, "."+h+"=") || strings.Contains(d, "."+h+"!") {
				out[h] = true
			}
		}
		if strings.Contains(d, "HasProjectors") {
			out["OFF"] = true
		}
		return out
	}
	for _, fn := range p.LibFuncs() {
		if fnPkg(fn) != p.Root.Pkg {
			continue
		}
		type op struct {
			in ssa.Instruction
			h  string
		}
		var ops []op
		isPub := fn.Signature.Recv() != nil && typeName(fn.Signature.Recv().Type()) == c.pub.Obj().Name()
		Instrs(fn, func(in ssa.Instruction) {
			cc := CallOf(in)
			if cc == nil || cc.StaticCallee() == nil || len(cc.Args) == 0 {
				return
			}
			if h := c.installers[cc.StaticCallee()]; h != "" && !isPub {
				ops = append(ops, op{in, h})
				return
			}
			if isPub && cc.StaticCallee().Name() == "Flush" {
				if _, f, _, ok := FieldOf(cc.Args[0]); ok {
					for _, h := range c.handles {
						if h == f {
							ops = append(ops, op{in, h})
						}
					}
				}
			}
		})
		kinds := map[string]bool{}
		for _, o := range ops {
			kinds[o.h] = true
		}
		if len(kinds) < 2 {
			continue
		}
		r.Fn(FuncName(fn))
		for _, o := range ops {
			bad := ""
			// ownAbsent: the successor index of an If that is taken when this format's own writer is
			// absent (-1: the test is not a plain presence test of this format)
			ownAbsent := func(iff *ssa.If, h string) int {
				cond := iff.Cond
				neg := false
				if u, ok := cond.(*ssa.UnOp); ok && u.Op == token.NOT {
					cond, neg = u.X, true
				}
				call, ok := cond.(*ssa.Call)
				if !ok || call.Call.StaticCallee() == nil || c.hasPred[call.Call.StaticCallee()] != h {
					return -1
				}
				if neg {
					return 0
				}
				return 1
			}
			for _, cd := range controlDependencesClosure(o.in.Block()) {
				ab := about(cd.If.Cond)
				if len(ab) == 0 || ab[o.h] {
					continue
				}
				// a test about another format that can only skip this step when this format's own
				// writer is absent anyway (`if !(has22 || has3 || hasOFF) { return }`) is harmless
				harmless := false
				for _, ct := range controllingIfs(cd.If.Block()) {
					if k := ownAbsent(ct.If, o.h); k >= 0 && k == ct.Branch {
						harmless = true
					}
				}
				if !harmless {
					x := o.in.Block()
					seenB := map[*ssa.BasicBlock]bool{}
					var escapes func(b *ssa.BasicBlock) bool
					escapes = func(b *ssa.BasicBlock) bool {
						if b == x || seenB[b] {
							return false
						}
						seenB[b] = true
						if len(b.Succs) == 0 {
							_, isPanic := b.Instrs[len(b.Instrs)-1].(*ssa.Panic)
							return !isPanic
						}
						for i, sc := range b.Succs {
							if iff, ok := b.Instrs[len(b.Instrs)-1].(*ssa.If); ok && ownAbsent(iff, o.h) == i {
								continue // this way is taken only when the own writer is absent
							}
							if escapes(sc) {
								return true
							}
						}
						return false
					}
					if !escapes(cd.If.Block().Succs[1-cd.Branch]) {
						harmless = true
					}
				}
				if harmless {
					continue
				}
				var hs []string
				for h := range ab {
					hs = append(hs, h)
				}
				sort.Strings(hs)
				bad = fmt.Sprintf("the test of %s at %s (outcome %v)", strings.Join(hs, "/"), p.InstrPos(cd.If), cd.Branch == 0)
			}
			key := fmt.Sprintf("%s of %s in %s depends only on %s's own conditions", CallOf(o.in).StaticCallee().Name(), o.h, FuncName(fn), o.h)
			r.Check(bad == "", "C06.R9", key, p.InstrPos(o.in), "not control dependent on a test about another output format",
				"this step for "+o.h+" is skipped or taken depending on "+bad+": a channel can end up without the "+o.h+" writer (or without its flush) although the reported state says "+o.h+" is active")
		}
	}
}

// controlDependences: the branch outcomes block x is control dependent on, within one loop
// iteration: x is always reached from successor k of the branch and can be avoided from the other
// (reaching a return, or the branch again, without passing x).
func controlDependences(x *ssa.BasicBlock) []ctrl {
	var out []ctrl
	fn := x.Parent()
	avoidable := func(from, branch *ssa.BasicBlock) bool {
		seen := map[*ssa.BasicBlock]bool{}
		var walk func(b *ssa.BasicBlock) bool
		walk = func(b *ssa.BasicBlock) bool {
			if b == x {
				return false
			}
			if seen[b] {
				return false
			}
			seen[b] = true
			if len(b.Succs) == 0 {
				// left the function; an abort (error return, panic) stops every format alike and
				// is not a way of skipping one of them
				switch t := b.Instrs[len(b.Instrs)-1].(type) {
				case *ssa.Panic:
					return false
				case *ssa.Return:
					if n := len(t.Results); n > 0 && isErrorType(t.Results[n-1].Type()) && definitelyNonNilError(t.Results[n-1]) {
						return false
					}
				}
				return true
			}
			for _, s := range b.Succs {
				if walk(s) {
					return true
				}
			}
			return false
		}
		return walk(from)
	}
	for _, a := range fn.Blocks {
		iff, ok := a.Instrs[len(a.Instrs)-1].(*ssa.If)
		if !ok || a == x || len(a.Succs) != 2 || a.Succs[0] == a.Succs[1] {
			continue
		}
		if !BlockReaches(a, x) {
			continue
		}
		av0, av1 := avoidable(a.Succs[0], a), avoidable(a.Succs[1], a)
		r0 := a.Succs[0] == x || BlockReaches(a.Succs[0], x)
		r1 := a.Succs[1] == x || BlockReaches(a.Succs[1], x)
		if r0 && !av0 && av1 {
			out = append(out, ctrl{iff, 0})
		}
		if r1 && !av1 && av0 {
			out = append(out, ctrl{iff, 1})
		}
	}
	return out
}

// controlDependencesClosure: direct control dependences of x and, transitively, of the blocks
// that hold the branches it depends on.
func controlDependencesClosure(x *ssa.BasicBlock) []ctrl {
	var out []ctrl
	seen := map[*ssa.BasicBlock]bool{}
	var visit func(b *ssa.BasicBlock)
	visit = func(b *ssa.BasicBlock) {
		if seen[b] {
			return
		}
		seen[b] = true
		for _, cd := range controlDependences(b) {
			out = append(out, cd)
			visit(cd.If.Block())
		}
	}
	visit(x)
	return out
}

// trueImpliesFlagFalse: the bool function h can return true only when the named bool field of its
// receiver was tested (or read) false: every returned value is the negated flag, the constant
// false, or a merge whose possibly-true inputs arrive from blocks on the flag-false side of a test
// of the flag.
func trueImpliesFlagFalse(h *ssa.Function, flag string) bool {
	if h == nil || h.Blocks == nil {
		return false
	}
	isFlag := func(v ssa.Value) bool {
		_, f, _, ok := FieldOf(v)
		return ok && f == flag
	}
	// blocks that are only reached with the flag false
	var falseSide []*ssa.BasicBlock
	Instrs(h, func(in ssa.Instruction) {
		iff, ok := in.(*ssa.If)
		if !ok {
			return
		}
		if isFlag(iff.Cond) {
			falseSide = append(falseSide, iff.Block().Succs[1])
		}
		if u, ok := iff.Cond.(*ssa.UnOp); ok && u.Op == token.NOT && isFlag(u.X) {
			falseSide = append(falseSide, iff.Block().Succs[0])
		}
	})
	onFalseSide := func(b *ssa.BasicBlock) bool {
		for _, fs := range falseSide {
			if len(fs.Preds) == 1 && (fs == b || fs.Dominates(b)) {
				return true
			}
		}
		return false
	}
	var okVal func(v ssa.Value, at *ssa.BasicBlock, d int) bool
	okVal = func(v ssa.Value, at *ssa.BasicBlock, d int) bool {
		if d > 6 {
			return false
		}
		if cst, ok := v.(*ssa.Const); ok && cst.Value != nil && cst.Value.ExactString() == "false" {
			return true
		}
		if u, ok := v.(*ssa.UnOp); ok && u.Op == token.NOT && isFlag(u.X) {
			return true
		}
		if at != nil && onFalseSide(at) {
			return true
		}
		if ph, ok := v.(*ssa.Phi); ok {
			for i, e := range ph.Edges {
				if !okVal(e, ph.Block().Preds[i], d+1) {
					return false
				}
			}
			return len(ph.Edges) > 0
		}
		return false
	}
	all, n := true, 0
	Instrs(h, func(in ssa.Instruction) {
		ret, ok := in.(*ssa.Return)
		if !ok {
			return
		}
		n++
		if len(ret.Results) != 1 || !okVal(ret.Results[0], ret.Block(), 0) {
			all = false
		}
	})
	return all && n > 0
}

// helperRemoves: g is a method of the publisher that removes the writer handle h for its caller:
// it calls the remover of h on its own receiver on every path, except paths left under a test
// that is computed from the handle fields alone (nothing to remove).  why is set when a path that
// skips the remover is chosen by other state (the pause flag): then the helper is not a remover.
func (c *c06ctx) helperRemoves(g *ssa.Function, h string) (bool, string) {
	if g == nil || len(g.Blocks) == 0 || g.Signature.Recv() == nil || typeName(g.Signature.Recv().Type()) != c.pub.Obj().Name() || c.removers[g] != "" {
		return false, ""
	}
	isRem := func(in ssa.Instruction) bool {
		cc := CallOf(in)
		return cc != nil && cc.StaticCallee() != nil && c.removers[cc.StaticCallee()] == h && len(cc.Args) > 0 && cc.Args[0] == ssa.Value(g.Params[0])
	}
	any := false
	Instrs(g, func(in ssa.Instruction) { any = any || isRem(in) })
	if !any {
		return false, ""
	}
	isHandle := map[string]bool{}
	for _, hh := range c.handles {
		isHandle[hh] = true
	}
	for _, esc := range ReachAvoiding(g, nil, isRem, isReturn) {
		// the conditions under which this return is reached without removing
		okEsc := false
		for _, ct := range controllingIfs(esc.Block()) {
			fields := map[string]bool{}
			c.pubFieldsOf(ct.If.Cond, fields, 0)
			if len(fields) == 0 {
				continue
			}
			only := true
			var other []string
			for f := range fields {
				if !isHandle[f] {
					only = false
					other = append(other, f)
				}
			}
			if only {
				okEsc = true
			} else {
				sort.Strings(other)
				return false, FuncName(g) + " skips the removal under a test at " + c.p.InstrPos(ct.If) + " that depends on " + strings.Join(other, ", ") + ", not only on whether a writer is installed"
			}
		}
		if !okEsc {
			return false, ""
		}
	}
	return true, ""
}

// pubFieldsOf: the fields of the publisher a condition is computed from (through predicate methods).
func (c *c06ctx) pubFieldsOf(v ssa.Value, out map[string]bool, d int) {
	if v == nil || d > 8 {
		return
	}
	if o, f, _, ok := FieldOf(v); ok && o == c.pub.Obj().Name() {
		out[f] = true
		return
	}
	if call, ok := v.(*ssa.Call); ok {
		if g := call.Call.StaticCallee(); isModuleFn(g) && g.Signature.Recv() != nil && typeName(g.Signature.Recv().Type()) == c.pub.Obj().Name() {
			Instrs(g, func(in ssa.Instruction) {
				if u, ok := in.(*ssa.UnOp); ok {
					if o, f, _, okf := FieldOf(u); okf && o == c.pub.Obj().Name() {
						out[f] = true
					}
				}
				if c2, ok := in.(*ssa.Call); ok {
					c.pubFieldsOf(c2, out, d+1)
				}
			})
		}
		return
	}
	if in, ok := v.(ssa.Instruction); ok {
		var ops []*ssa.Value
		for _, o := range in.Operands(ops) {
			c.pubFieldsOf(*o, out, d+1)
		}
	}
}

// ---- R2e: the reported copy of the writing state carries every flag -------------------------

// ruleR2e: clients are told the writing state through a copy made field by field (open files and
// tickers are left out on purpose).  Every exported bool field of the writing state - active,
// paused, one flag per file type - must be copied from the field of the same name; a flag that
// is left out is reported as false whatever the channels are doing.
func (c *c06ctx) ruleR2e() {
	p, r := c.p, c.r
	wsName := c.ws.Obj().Name()
	st := c.ws.Underlying().(*types.Struct)
	var flags []string
	for i := 0; i < st.NumFields(); i++ {
		f := st.Field(i)
		if b, ok := f.Type().Underlying().(*types.Basic); ok && b.Kind() == types.Bool && f.Exported() {
			flags = append(flags, f.Name())
		}
	}
	n := 0
	for _, fn := range p.LibFuncs() {
		if fn.Signature.Recv() == nil || typeName(fn.Signature.Recv().Type()) != wsName || fn.Signature.Results().Len() != 1 || typeName(fn.Signature.Results().At(0).Type()) != wsName {
			continue
		}
		// the copy: a WritingState made here and returned
		var cp *ssa.Alloc
		Instrs(fn, func(in ssa.Instruction) {
			if a, ok := in.(*ssa.Alloc); ok && typeName(a.Type()) == wsName {
				cp = a
			}
		})
		if cp == nil {
			continue
		}
		copied := map[string]string{}
		for _, ref := range *cp.Referrers() {
			fa, ok := ref.(*ssa.FieldAddr)
			if !ok {
				continue
			}
			name := st.Field(fa.Field).Name()
			for _, r2 := range *fa.Referrers() {
				s2, ok := r2.(*ssa.Store)
				if !ok || s2.Addr != ssa.Value(fa) {
					continue
				}
				if o, f, base, okf := FieldOf(s2.Val); okf && o == wsName && base == ssa.Value(fn.Params[0]) {
					copied[name] = f
				} else {
					copied[name] = "?"
				}
			}
		}
		if len(copied) < 3 {
			continue
		}
		n++
		r.Fn(FuncName(fn))
		for _, f := range flags {
			from, has := copied[f]
			key := FuncName(fn) + ": the reported copy carries " + f
			switch {
			case !has:
				r.Bad("C06.R2e", key, p.Pos(fn.Pos()), "the copy of the writing state that clients are told leaves out "+f+": it is reported as false whatever the channels are doing (a run that writes that file type is reported as not writing it)")
			case from != f:
				r.Bad("C06.R2e", key, p.Pos(fn.Pos()), "the reported "+f+" is filled from "+from+", not from the field of the same name")
			default:
				r.OK("C06.R2e", key, p.Pos(fn.Pos()), "copied from the same field")
			}
		}
	}
	if n == 0 {
		r.Unk("C06.R2e", "reported copy of the writing state", "-", "no method of the writing state returns a field-by-field copy")
	}
}
