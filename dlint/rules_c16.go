package main

import (
	"os"
	"fmt"
	"go/constant"
	"go/token"
	"go/types"
	"sort"
	"strings"

	"golang.org/x/tools/go/ssa"
)

func init() {
	register(&RuleSet{
		Property: "C16",
		Explanation: "Decides the structural clauses of status replay and crash-safe configuration persistence: " +
			"(R1) the path of the live configuration file (viper.ConfigFileUsed) never reaches a destructive position (old-path of rename, remove, create/truncate, direct config write), so no kill point leaves the file missing or partial; it may only be the new-path of a rename or the source of a hard link; " +
			"(R2) the rename that publishes the new file takes as its source exactly the temporary file whose complete write (WriteConfigAs) succeeded on that path; " +
			"(R3) in the updater loop, remembering a message (object and JSON text) is conditional only on the message having changed and on the fixed non-state tags, never on another table, so every published topic is replayed; the SENDALL arm replays the whole cache with the cached text of the same key; " +
			"(R4) every key restored at start-up is a lower-cased tag that is published and not on the no-save list, and saveState persists every cached key except the no-save list; " +
			"(R5) restore loops do not store the address of a per-loop (Go <= 1.21 semantics) range variable into a longer-lived table. " +
			"Does not decide: value round trip through YAML, fsync-level durability, delivery on the SUB socket.",
		RuleDocs: []string{
			"C16.R6 stores into the decoded status record: under a test of the field itself (or max/min of it); for fields a setter validates, the replace condition (linear form) implies one of the setter's rejection tests",
			"C16.R7 the loop over a decoded list has no exit other than exhaustion",
			"C16.R8 os.IsNotExist / IsExist / IsPermission / IsTimeout in the save step are not applied to an error re-made with fmt.Errorf(%w)",
			"C16.R1 taint of the live-config path value into destructive argument positions (os.Rename old path, os.Remove*, os.Create, os.WriteFile, os.Truncate, os.OpenFile with write flags, viper.WriteConfig*)",
			"C16.R2 publish-rename source == argument of a dominating, error-checked viper.WriteConfigAs (package function, or the method on a store of its own that was filled by a loop over viper.AllSettings()); destination == live-config path",
			"C16.R3 control dependence of the cache updates in the updater loop (also when the cache is a map of entries updated by a helper method); the remembered object is the state field of the received update itself, not a value rebuilt from the JSON text; SENDALL arm ranges over the cache",
			"C16.R3 (addition) nothing is deleted from the replay caches, in the updater or in functions handed a cache; C16.R4 (addition) destinations of viper.UnmarshalKey have no slice/map field set before decoding",
			"C16.R4 key sets: viper.UnmarshalKey constants vs ClientUpdate tag constants vs no-save table; saveState loop guard",
			"C16.R5 address of a range variable hoisted out of the loop is stored into a container inside the loop",
		},
		Assumptions: []string{"os.Rename within one directory is atomic (POSIX); os.Link creates a second name without touching the first"},
		Run:         runC16,
	})
}

func runC16(p *Prog, r *Report) {
	r.MinInstances["C16.R1"] = 1
	r.MinInstances["C16.R2"] = 1
	r.MinInstances["C16.R3"] = 3
	r.MinInstances["C16.R4"] = 10
	r.MinInstances["C16.R6"] = 3
	r.MinInstances["C16.R7"] = 1
	c16R1R2(p, r)
	c16R3(p, r)
	c16R4(p, r)
	loopVarAliasRule(p, r, "C16.R5")
	c16More(p, r)
	c16R6R7(p, r)
	c16R8(p, r)
}

const viperPkg = "github.com/spf13/viper"

func c16R1R2(p *Prog, r *Report) {
	// the live config path: what viper.ConfigFileUsed returns, wherever it is carried (locals,
	// results of module helpers that return it)
	isM := map[ssa.Value]bool{}
	var mark func(v ssa.Value)
	mark = func(v ssa.Value) {
		if isM[v] {
			return
		}
		isM[v] = true
		for _, ref := range *v.Referrers() {
			switch x := ref.(type) {
			case *ssa.Phi:
				mark(x)
			case *ssa.Store:
				// kept in a local variable (a named result of a function that defers)
				if al, ok := x.Addr.(*ssa.Alloc); ok && x.Val == v {
					for _, r2 := range *al.Referrers() {
						if ld, ok := r2.(*ssa.UnOp); ok && ld.Op == token.MUL {
							mark(ld)
						}
					}
				}
			}
		}
	}
	for _, fn := range p.LibFuncs() {
		Instrs(fn, func(in ssa.Instruction) {
			if IsCallTo(in, viperPkg+".ConfigFileUsed") {
				if v, ok := in.(ssa.Value); ok {
					mark(v)
				}
			}
		})
	}
	for changed := true; changed; {
		changed = false
		for _, h := range p.LibFuncs() {
			nres := h.Signature.Results().Len()
			for i := 0; i < nres; i++ {
				all, any := true, false
				Instrs(h, func(in ssa.Instruction) {
					if ret, ok := in.(*ssa.Return); ok && i < len(ret.Results) {
						any = true
						if !isM[returnedValue(ret, i)] && !isM[ret.Results[i]] {
							all = false
						}
					}
				})
				if !all || !any {
					continue
				}
				sites, _ := p.staticCallSites(h)
				for _, site := range sites {
					call, ok := site.(*ssa.Call)
					if !ok {
						continue
					}
					var rv ssa.Value = call
					if nres > 1 {
						rv = nil
						for _, ref := range *call.Referrers() {
							if e, ok := ref.(*ssa.Extract); ok && e.Index == i {
								rv = e
							}
						}
					}
					if rv != nil && !isM[rv] {
						mark(rv)
						changed = true
					}
				}
			}
		}
	}
	isFileWrite := func(in ssa.Instruction) bool {
		n := CalleeName(CallOf(in))
		return strings.HasPrefix(n, "os.Re") || strings.HasPrefix(n, viperPkg+".WriteConfig") || strings.HasPrefix(n, viperPkg+".SafeWriteConfig") || n == "os.Create" || n == "os.WriteFile" || n == "os.Link"
	}
	// the savers: functions that hold the live path and (with their helpers) write files; a
	// helper of another saver is examined as part of that one
	var cands []*ssa.Function
	for _, fn := range p.LibFuncs() {
		has := false
		Instrs(fn, func(in ssa.Instruction) {
			if v, ok := in.(ssa.Value); ok && isM[v] {
				has = true
			}
		})
		if !has {
			continue
		}
		writes := false
		InstrsDeep(fn, 2, func(d DeepInstr) {
			if CallOf(d.In) != nil && isFileWrite(d.In) {
				writes = true
			}
		})
		if writes {
			cands = append(cands, fn)
		}
	}
	inner := map[*ssa.Function]bool{}
	for _, fn := range cands {
		for _, h := range DeepFuncs(fn, 2) {
			if h != fn {
				inner[h] = true
			}
		}
	}
	// tmpKey: a file name as a term over the live path (two calls of the same naming helper on the
	// live path name the same file)
	var tmpKeyP func(path []ssa.Instruction, v ssa.Value, depth int) string
	tmpKeyP = func(path []ssa.Instruction, v ssa.Value, depth int) string {
		// a parameter is the argument of the call that led here
		for len(path) > 0 {
			prm, ok := v.(*ssa.Parameter)
			if !ok {
				break
			}
			cc := CallOf(path[len(path)-1])
			callee := cc.StaticCallee()
			idx := -1
			if callee != nil {
				for j, q := range callee.Params {
					if q == prm {
						idx = j
					}
				}
			}
			if idx < 0 || idx >= len(cc.Args) {
				break
			}
			v = cc.Args[idx]
			path = path[:len(path)-1]
		}
		if isM[v] {
			return "LIVE"
		}
		if depth > 4 {
			return fmt.Sprintf("?%p", v)
		}
		switch x := v.(type) {
		case *ssa.Const:
			return x.String()
		case *ssa.BinOp:
			return "(" + tmpKeyP(path, x.X, depth+1) + x.Op.String() + tmpKeyP(path, x.Y, depth+1) + ")"
		case *ssa.Call:
			if x.Call.IsInvoke() {
				break
			}
			var as []string
			for _, a := range x.Call.Args {
				as = append(as, tmpKeyP(path, a, depth+1))
			}
			return CalleeName(&x.Call) + "(" + strings.Join(as, ",") + ")"
		}
		return fmt.Sprintf("?%p", v)
	}
	tmpKey := func(d DeepInstr, v ssa.Value, depth int) string { return tmpKeyP(d.Path, v, depth) }
	n := 0
	for _, fn := range cands {
		if inner[fn] {
			continue
		}
		n++
		r.Fn(FuncName(fn))
		var bad []string
		var publish []DeepInstr
		// the file operations may sit in fn or in module helpers fn hands the paths to
		live := func(d DeepInstr, v ssa.Value) bool { return isM[ArgForParam(d.Path, v)] }
		InstrsDeep(fn, 2, func(d DeepInstr) {
			in := d.In
			cc := CallOf(in)
			if cc == nil {
				return
			}
			name := CalleeName(cc)
			arg := func(i int) bool { return i < len(cc.Args) && live(d, cc.Args[i]) }
			switch {
			case name == "os.Rename":
				if arg(0) {
					bad = append(bad, fmt.Sprintf("os.Rename moves the live config file away at %s: a kill before the next step leaves no config file, and start-up then creates an empty one (all settings lost)", p.InstrPos(in)))
				}
				if arg(1) {
					if _, ok := in.(*ssa.Call); ok {
						publish = append(publish, d)
					}
				}
			case name == "os.Remove" || name == "os.RemoveAll" || name == "os.Create" || name == "os.Truncate" || name == "os.WriteFile":
				if arg(0) {
					bad = append(bad, fmt.Sprintf("%s on the live config file at %s", name, p.InstrPos(in)))
				}
			case name == "os.OpenFile":
				if arg(0) {
					if fl, ok := constInt(cc.Args[1]); !ok || fl&(1|2|64|512|1024) != 0 {
						bad = append(bad, fmt.Sprintf("os.OpenFile of the live config file for writing at %s", p.InstrPos(in)))
					}
				}
			case strings.HasPrefix(name, viperPkg+".WriteConfigAs") || strings.HasPrefix(name, viperPkg+".SafeWriteConfigAs"):
				if arg(0) {
					bad = append(bad, fmt.Sprintf("%s writes directly into the live config file at %s: a kill during the write leaves it truncated", name, p.InstrPos(in)))
				}
			case name == viperPkg+".WriteConfig" || name == viperPkg+".SafeWriteConfig":
				bad = append(bad, fmt.Sprintf("%s writes directly into the live config file at %s", name, p.InstrPos(in)))
			case name == "os.Link" || name == "os.Symlink":
				if arg(1) {
					bad = append(bad, fmt.Sprintf("%s creates the live config name at %s (not an atomic replacement of a complete file)", name, p.InstrPos(in)))
				}
			}
		})
		if len(bad) == 0 {
			r.OK("C16.R1", "live config path in "+FuncName(fn), p.Pos(fn.Pos()), "the live config path is used only as the destination of an atomic rename (and as a read/link source)")
		}
		for _, b := range bad {
			r.Bad("C16.R1", "live config path in "+FuncName(fn), p.Pos(fn.Pos()), b)
		}
		// R2
		if len(publish) == 0 {
			r.Bad("C16.R2", "publishing rename in "+FuncName(fn), p.Pos(fn.Pos()), "no os.Rename(<temporary>, <live config>) publishes the new configuration atomically")
		}
		for _, rd := range publish {
			ren := rd.In.(*ssa.Call)
			src := ArgForParam(rd.Path, ren.Call.Args[0])
			srcKey := tmpKey(rd, ren.Call.Args[0], 0)
			good := false
			privateWhy := ""
			msg := "the source of the publishing rename is not the file written by a dominating, error-checked viper.WriteConfigAs"
			InstrsDeep(fn, 2, func(wd DeepInstr) {
				w, ok := wd.In.(*ssa.Call)
				if ok && strings.HasPrefix(CalleeName(&w.Call), viperPkg+".SafeWriteConfigAs") && !good {
					msg = "the temporary file is written with viper.SafeWriteConfigAs at " + p.InstrPos(w) + ", which refuses to overwrite an existing file: after one save interrupted between the write and the rename the left-over temporary file makes every later save fail, and the live config file is never updated again"
				}
				if !ok {
					return
				}
				// the writer: the package function (the shared store) or the method on a store of its own
				var fileArg, inst ssa.Value
				switch {
				case strings.HasPrefix(CalleeName(&w.Call), viperPkg+".WriteConfigAs"):
					fileArg = w.Call.Args[0]
				case CalleeName(&w.Call) == "(*"+viperPkg+".Viper).WriteConfigAs" && len(w.Call.Args) == 2:
					inst, fileArg = w.Call.Args[0], w.Call.Args[1]
				default:
					return
				}
				if os.Getenv("DLINT_DEBUG_C16") != "" {
					fmt.Fprintln(os.Stderr, "C16 writer", tmpKey(wd, fileArg, 0), "rename src", srcKey, "dom", DeepDominates(wd, rd))
				}
				if ArgForParam(wd.Path, fileArg) != src && (strings.Contains(srcKey, "?") || tmpKey(wd, fileArg, 0) != srcKey) {
					return
				}
				if inst != nil {
					// a private store: the file holds what that store was given, so it must have been
					// given every setting of the shared store (what was loaded at start-up included)
					if why := c16PrivateStoreComplete(p, inst); why != "" {
						privateWhy = why
					}
				}
				if !DeepDominates(wd, rd) {
					return
				}
				// the values that stand for the writer's error: the call itself and the calls of
				// helpers that return it unchanged
				errVals := map[ssa.Value]bool{w: true}
				for i := len(wd.Path) - 1; i >= 0; i-- {
					hc, ok := wd.Path[i].(*ssa.Call)
					if !ok {
						break
					}
					h := hc.Call.StaticCallee()
					if rv := singleReturn(h); rv != nil && errVals[rv] {
						errVals[hc] = true
						continue
					}
					// `return name, viper.WriteConfigAs(...)`: the last result of every return is the
					// writer's error; the caller sees it as the last extracted result
					last := h.Signature.Results().Len() - 1
					all := last >= 1
					Instrs(h, func(y ssa.Instruction) {
						if ret, ok := y.(*ssa.Return); ok && ret.Block() != h.Recover {
							if len(ret.Results) <= last || !(errVals[returnedValue(ret, last)] || definitelyNonNilError(returnedValue(ret, last))) {
								all = false
							}
						}
					})
					if !all {
						break
					}
					found := false
					for _, ref := range *hc.Referrers() {
						if e, ok := ref.(*ssa.Extract); ok && e.Index == last {
							errVals[e] = true
							found = true
						}
					}
					if !found {
						break
					}
				}
				// ... and the results of module helpers that wrap it without ever turning a failure
				// into nil (every return of something that may be nil is on the helper's err == nil side)
				for changed := true; changed; {
					changed = false
					for ev := range errVals {
						if ev.Referrers() == nil {
							continue
						}
						for _, ref := range *ev.Referrers() {
							hc, ok := ref.(*ssa.Call)
							if !ok || errVals[hc] || hc.Call.StaticCallee() == nil || !isModuleFn(hc.Call.StaticCallee()) || hc.Call.StaticCallee().Blocks == nil {
								continue
							}
							h := hc.Call.StaticCallee()
							if h.Signature.Results().Len() != 1 || !isErrorType(h.Signature.Results().At(0).Type()) || len(h.Params) != len(hc.Call.Args) {
								continue
							}
							for k, a := range hc.Call.Args {
								if a != ev {
									continue
								}
								keeps := true
								Instrs(h, func(y ssa.Instruction) {
									ret, ok := y.(*ssa.Return)
									if !ok || definitelyNonNilError(ret.Results[0]) {
										return
									}
									onNil := false
									for _, ci := range controllingIfs(ret.Block()) {
										bo, ok := ci.If.Cond.(*ssa.BinOp)
										if !ok || bo.X != ssa.Value(h.Params[k]) {
											continue
										}
										if cst, isC := bo.Y.(*ssa.Const); !isC || !cst.IsNil() {
											continue
										}
										if (bo.Op == token.EQL && ci.Branch == 0) || (bo.Op == token.NEQ && ci.Branch == 1) {
											onNil = true
										}
									}
									if !onNil {
										keeps = false
									}
								})
								if keeps {
									errVals[hc] = true
									changed = true
								}
							}
						}
					}
				}
				// error checked: the rename (or the call that leads to it) lies on the err == nil side
				for _, at := range append([]ssa.Instruction{ren}, rd.Path...) {
					for _, ci := range controllingIfs(at.Block()) {
						bo, ok := ci.If.Cond.(*ssa.BinOp)
						if !ok || !errVals[bo.X] {
							continue
						}
						if (bo.Op == token.NEQ && ci.Branch == 1) || (bo.Op == token.EQL && ci.Branch == 0) {
							good = true
						}
					}
				}
				if !good {
					msg = "the result of viper.WriteConfigAs is not checked before the rename: a failed (partial) write would replace the live config file"
				}
			})
			if isM[src] {
				good = false
				msg = "the temporary file and the live config file are the same value"
			}
			if good && privateWhy != "" {
				good = false
				msg = privateWhy
			}
			r.Check(good, "C16.R2", "publishing rename in "+FuncName(fn), p.InstrPos(ren), "complete temporary file, then atomic rename onto the live config path", msg)
		}
	}
	if n == 0 {
		r.Bad("C16.R1", "configuration saver", "-", "no function obtains the live configuration path and writes it")
	}
}

// ---- R3 ------------------------------------------------------------------------------------

// c16Update: one place where a message is remembered in a replay cache: a map update in the
// updater itself, or in a helper the updater hands the cache to (call is then the call in the
// updater, and the helper's parameters stand for its arguments).
type c16Update struct {
	mu   *ssa.MapUpdate
	fn   *ssa.Function
	call *ssa.Call
}

// c16Caches: the maps the updater makes and remembers messages in, and the remembering updates.
func c16Caches(upd *ssa.Function) (caches map[ssa.Value]bool, canon func(ssa.Value) ssa.Value, updates []c16Update, cacheParam map[ssa.Value]bool) {
	caches = map[ssa.Value]bool{}
	cacheParam = map[ssa.Value]bool{}
	canon0 := localMapAliases(upd)
	canon = func(v ssa.Value) ssa.Value {
		for i := 0; i < 4; i++ {
			v = canon0(v)
			if ct, ok := v.(*ssa.ChangeType); ok {
				v = ct.X
				continue
			}
			break
		}
		return v
	}
	Instrs(upd, func(in ssa.Instruction) {
		if mu, ok := in.(*ssa.MapUpdate); ok {
			if _, isMk := canon(mu.Map).(*ssa.MakeMap); isMk {
				caches[canon(mu.Map)] = true
				updates = append(updates, c16Update{mu, upd, nil})
			}
		}
	})
	Instrs(upd, func(in ssa.Instruction) {
		call, ok := in.(*ssa.Call)
		if !ok || call.Call.IsInvoke() {
			return
		}
		h := call.Call.StaticCallee()
		if !isModuleFn(h) || len(h.Blocks) == 0 || len(h.Params) != len(call.Call.Args) {
			return
		}
		for i, a := range call.Call.Args {
			if _, isMk := canon(a).(*ssa.MakeMap); !isMk {
				continue
			}
			if _, isMap := a.Type().Underlying().(*types.Map); !isMap {
				continue
			}
			prm := h.Params[i]
			Instrs(h, func(x ssa.Instruction) {
				if mu, ok := x.(*ssa.MapUpdate); ok && mu.Map == ssa.Value(prm) {
					caches[canon(a)] = true
					cacheParam[prm] = true
					updates = append(updates, c16Update{mu, h, call})
				}
			})
		}
	})
	return
}

// c16Parts: the values a map update remembers: the value itself, or the fields of a struct value
// put together just before (`m[k] = entry{text: t, state: s}`).
func c16Parts(v ssa.Value) []ssa.Value {
	if derefStruct(v.Type()) == nil {
		return []ssa.Value{v}
	}
	if _, isPtr := v.Type().Underlying().(*types.Pointer); isPtr {
		return []ssa.Value{v}
	}
	ld, ok := v.(*ssa.UnOp)
	if !ok || ld.Op != token.MUL {
		return []ssa.Value{v}
	}
	al, ok := ld.X.(*ssa.Alloc)
	if !ok {
		return []ssa.Value{v}
	}
	var parts []ssa.Value
	for _, ref := range *al.Referrers() {
		fa, ok := ref.(*ssa.FieldAddr)
		if !ok {
			continue
		}
		for _, r2 := range *fa.Referrers() {
			if st, ok := r2.(*ssa.Store); ok && st.Addr == ssa.Value(fa) {
				parts = append(parts, st.Val)
			}
		}
		// a field whose address is handed to a call is filled there
		for _, r2 := range *fa.Referrers() {
			if _, isSt := r2.(*ssa.Store); isSt {
				continue
			}
			if _, isLd := r2.(*ssa.UnOp); isLd {
				continue
			}
			parts = append(parts, fa)
		}
	}
	if len(parts) == 0 {
		return []ssa.Value{v}
	}
	return parts
}

func c16R3(p *Prog, r *Report) {
	upd := p.Func("", "", "RunClientUpdater")
	pub := p.Func("", "", "publish")
	if upd == nil || pub == nil {
		r.Unk("C16.R3", "RunClientUpdater/publish", "-", "name-keyed anchors not found")
		return
	}
	r.Fn(FuncName(upd))
	caches, canon, updates, cacheParam := c16Caches(upd)
	isCache := func(v ssa.Value) bool { return cacheParam[v] || caches[canon(v)] }
	// what is remembered: the JSON text (a string) and the object (an interface value)
	type part struct {
		v ssa.Value
		u c16Update
	}
	var texts, objects []part
	for _, u := range updates {
		r.Fn(FuncName(u.fn))
		if _, constKey := stripConv(u.mu.Key).(*ssa.Const); constKey {
			continue // a fixed entry (time stamp of the saved file), not a remembered message
		}
		for _, pv := range c16Parts(u.mu.Value) {
			t := pv.Type()
			if fa, isFA := pv.(*ssa.FieldAddr); isFA {
				t = fa.Type().Underlying().(*types.Pointer).Elem()
			}
			if b, ok := t.Underlying().(*types.Basic); ok && b.Kind() == types.String {
				texts = append(texts, part{pv, u})
			} else if _, ok := t.Underlying().(*types.Interface); ok {
				objects = append(objects, part{pv, u})
			}
		}
	}
	if len(texts) == 0 || len(objects) == 0 {
		r.Bad("C16.R3", "cache updates in "+FuncName(upd), p.Pos(upd.Pos()), "the updater does not remember both the object and the JSON text of messages")
		return
	}
	dependsOnCacheLookup := func(v ssa.Value) bool {
		found := false
		seen := map[ssa.Value]bool{}
		var walk func(v ssa.Value)
		walk = func(v ssa.Value) {
			if v == nil || seen[v] {
				return
			}
			seen[v] = true
			if lk, ok := v.(*ssa.Lookup); ok && isCache(lk.X) {
				found = true
				return
			}
			// the entry a range over the cache is at
			if nx, ok := v.(*ssa.Next); ok {
				if rg, ok := nx.Iter.(*ssa.Range); ok && isCache(rg.X) {
					found = true
					return
				}
			}
			// a local struct variable (`for k, entry := range cache`): what was assigned to it
			if al, ok := v.(*ssa.Alloc); ok {
				for _, ref := range *al.Referrers() {
					if st, ok := ref.(*ssa.Store); ok && st.Addr == ssa.Value(al) {
						walk(st.Val)
					}
				}
			}
			if in, ok := v.(ssa.Instruction); ok {
				var ops []*ssa.Value
				for _, o := range in.Operands(ops) {
					walk(*o)
				}
			}
		}
		walk(v)
		return found
	}
	isTagConstCmp := func(v ssa.Value) bool {
		bo, ok := v.(*ssa.BinOp)
		if !ok || (bo.Op != token.EQL && bo.Op != token.NEQ) {
			return false
		}
		for _, side := range []ssa.Value{bo.X, bo.Y} {
			if c, ok := side.(*ssa.Const); ok && c.Value != nil && c.Value.Kind() == constant.String {
				return true
			}
		}
		return false
	}
	// the select that receives updates: only conditions inside its arms matter
	var selBlock *ssa.BasicBlock
	Instrs(upd, func(in ssa.Instruction) {
		if sel, ok := in.(*ssa.Select); ok && sel.Blocking && len(sel.States) > 1 {
			selBlock = sel.Block()
		}
	})
	seenMu := map[*ssa.MapUpdate]bool{}
	for _, u := range updates {
		mu := u.mu
		if seenMu[mu] {
			continue
		}
		seenMu[mu] = true
		var extra []string
		conds := func(b *ssa.BasicBlock, inUpd bool) {
			for _, ci := range controllingIfs(b) {
				if inUpd && selBlock != nil && !(ci.If.Block() == selBlock || selBlock.Dominates(ci.If.Block())) {
					continue // start-up checks before the loop
				}
				cond := ci.If.Cond
				switch {
				case isTagConstCmp(cond):
				case dependsOnCacheLookup(cond):
				default:
					// select dispatch: comparison of the select index with a constant
					if bo, ok := cond.(*ssa.BinOp); ok {
						if e, ok := bo.X.(*ssa.Extract); ok {
							if _, isSel := e.Tuple.(*ssa.Select); isSel {
								continue
							}
						}
					}
					extra = append(extra, p.InstrPos(ci.If))
				}
			}
		}
		if u.call != nil {
			conds(mu.Block(), false)
			conds(u.call.Block(), true)
		} else {
			conds(mu.Block(), true)
		}
		which := "object"
		parts := c16Parts(mu.Value)
		if len(parts) > 1 {
			which = "object and JSON text"
		} else if b, ok := mu.Value.Type().Underlying().(*types.Basic); ok && b.Kind() == types.String {
			which = "JSON text"
		}
		r.Check(len(extra) == 0, "C16.R3", "remember "+which+" in "+FuncName(upd), p.InstrPos(mu),
			"remembered whenever the message changed (only the fixed non-state tags are exempt)",
			"remembering the last message is additionally conditional on a test at "+strings.Join(extra, ", ")+": topics failing it are published live but never replayed to a client that asks for all status")
	}
	// the remembered object is the one the sender handed over (the state field of the received
	// update), not something rebuilt from the text: the configuration file is written from it
	// and read back into the same Go types
	for _, o := range objects {
		v := o.v
		if prm, ok := v.(*ssa.Parameter); ok && o.u.call != nil {
			for i, hp := range o.u.fn.Params {
				if hp == prm {
					v = o.u.call.Call.Args[i]
				}
			}
		}
		v = stripConv(v)
		key := "the remembered object is the sender's own (" + FuncName(o.u.fn) + ")"
		received := func(x ssa.Value) bool {
			e, ok := x.(*ssa.Extract)
			if !ok {
				return false
			}
			_, isSel := e.Tuple.(*ssa.Select)
			return isSel
		}
		switch x := v.(type) {
		case *ssa.Field:
			if received(x.X) {
				r.OK("C16.R3", key, p.InstrPos(o.u.mu), "the state field of the received update is stored as it came")
				continue
			}
		case *ssa.UnOp:
			// the update kept in a local variable: `update := <-ch` ... `update.state`
			if src, ok := localStructSource(x); ok && received(src) {
				r.OK("C16.R3", key, p.InstrPos(o.u.mu), "the state field of the received update is stored as it came")
				continue
			}
		}
		// positive evidence of a rebuilt object: a local filled through its address by a call
		rebuilt := ""
		var cell ssa.Value
		switch x := v.(type) {
		case *ssa.FieldAddr:
			cell = x
		case *ssa.UnOp:
			if x.Op == token.MUL {
				cell = x.X
			}
		}
		if cell != nil {
			root := cell
			if fa, ok := root.(*ssa.FieldAddr); ok {
				root = fa.X
			}
			if _, isLocal := root.(*ssa.Alloc); isLocal {
				for _, ref := range *cell.Referrers() {
					if mi, ok := ref.(*ssa.MakeInterface); ok {
						for _, r2 := range *mi.Referrers() {
							if c := CallOf2(r2); c != nil {
								rebuilt = CalleeName(c) + " at " + p.InstrPos(r2.(ssa.Instruction))
							}
						}
					}
					if c := CallOf2(ref); c != nil {
						rebuilt = CalleeName(c) + " at " + p.InstrPos(ref)
					}
				}
			}
		}
		if rebuilt != "" {
			r.Bad("C16.R3", key, p.InstrPos(o.u.mu), "the object remembered for a topic (and later written to the configuration file) is filled in by "+rebuilt+" instead of being the state the sender handed over: a value rebuilt from the JSON text has JSON's shape (embedded structs flattened, numbers as float64), which is not what the start-up code reads back into its Go types")
		} else {
			r.Unk("C16.R3", key, p.InstrPos(o.u.mu), "the remembered object could not be traced to the state field of the received update")
		}
	}
	// SENDALL arm: a range over a cache map with a publish call in the loop taking the cached text of the same key
	good := false
	Instrs(upd, func(in ssa.Instruction) {
		rg, ok := in.(*ssa.Range)
		if !ok || !caches[canon(rg.X)] {
			return
		}
		// find publish calls whose message argument derives from a Lookup in a cache keyed by this range's key
		Instrs(upd, func(x ssa.Instruction) {
			cc := CallOf(x)
			if cc == nil || cc.StaticCallee() != pub {
				return
			}
			msg := cc.Args[len(cc.Args)-1]
			if dependsOnCacheLookup(msg) && rg.Block().Dominates(x.Block()) {
				good = true
			}
		})
	})
	r.Check(good, "C16.R3", "replay arm in "+FuncName(upd), p.Pos(upd.Pos()), "the replay request ranges over the whole cache and publishes the cached text of each key", "no replay of the whole message cache (range over the cache with publish of the cached text) was found")
}

// localStructSource: ld reads a field of a local struct variable that is assigned as a whole
// exactly once and whose fields are never stored to separately: the value assigned.
func localStructSource(ld *ssa.UnOp) (ssa.Value, bool) {
	if ld.Op != token.MUL {
		return nil, false
	}
	fa, ok := ld.X.(*ssa.FieldAddr)
	if !ok {
		return nil, false
	}
	al, ok := fa.X.(*ssa.Alloc)
	if !ok {
		return nil, false
	}
	var src ssa.Value
	for _, ref := range *al.Referrers() {
		switch x := ref.(type) {
		case *ssa.Store:
			if x.Addr != ssa.Value(al) || src != nil {
				return nil, false
			}
			src = x.Val
		case *ssa.FieldAddr:
			for _, r2 := range *x.Referrers() {
				if st, isSt := r2.(*ssa.Store); isSt && st.Addr == ssa.Value(x) {
					return nil, false
				}
				if _, isLd := r2.(*ssa.UnOp); !isLd {
					if _, isDbg := r2.(*ssa.DebugRef); !isDbg {
						return nil, false
					}
				}
			}
		case *ssa.UnOp, *ssa.DebugRef:
		default:
			return nil, false
		}
	}
	return src, src != nil
}

// CallOf2: the call an instruction makes, nil for anything else.
func CallOf2(in ssa.Instruction) *ssa.CallCommon {
	if in == nil {
		return nil
	}
	return CallOf(in)
}

// ---- R4 ------------------------------------------------------------------------------------

func constString(v ssa.Value) (string, bool) {
	if c, ok := v.(*ssa.Const); ok && c.Value != nil && c.Value.Kind() == constant.String {
		return constant.StringVal(c.Value), true
	}
	return "", false
}

func c16R4(p *Prog, r *Report) {
	cu := p.NamedType("", "ClientUpdate")
	if cu == nil {
		r.Unk("C16.R4", "ClientUpdate", "-", "type not found")
		return
	}
	// published tags: constant strings stored into ClientUpdate.tag
	tags := map[string]bool{}
	for _, fn := range p.LibFuncs() {
		for _, st := range StoresTo(fn, cu.Obj().Name(), "tag") {
			if s, ok := constString(st.Val); ok {
				tags[strings.ToLower(s)] = true
			}
			// the tag handed in by the callers of a publishing helper
			if prm, isPrm := st.Val.(*ssa.Parameter); isPrm && prm.Parent() == fn {
				sites, _ := p.staticCallSites(fn)
				for k, pp := range fn.Params {
					if pp != prm {
						continue
					}
					for _, site := range sites {
						if cc := CallOf(site); cc != nil && k < len(cc.Args) {
							if s, ok := constString(cc.Args[k]); ok {
								tags[strings.ToLower(s)] = true
							}
						}
					}
				}
			}
		}
	}
	// no-save table: keys of the package-level map literal nosaveMessages (from its initialiser)
	nosave := map[string]bool{}
	if g, ok := p.Root.Members["nosaveMessages"].(*ssa.Global); ok {
		if init := p.Root.Func("init"); init != nil {
			Instrs(init, func(in ssa.Instruction) {
				mu, ok := in.(*ssa.MapUpdate)
				if !ok {
					return
				}
				// the map being filled is later stored into the global
				for _, ref := range *mu.Map.Referrers() {
					if st, ok := ref.(*ssa.Store); ok && st.Addr == ssa.Value(g) {
						if s, ok := constString(mu.Key); ok {
							nosave[s] = true
						}
					}
				}
			})
		}
	}
	if len(nosave) == 0 {
		r.Unk("C16.R4", "no-save table", "-", "could not read the keys of nosaveMessages")
		return
	}
	// restored keys
	type rk struct {
		key string
		in  ssa.Instruction
		fn  *ssa.Function
	}
	var restored []rk
	for _, fn := range p.LibFuncs() {
		Instrs(fn, func(in ssa.Instruction) {
			if IsCallTo(in, viperPkg+".UnmarshalKey") {
				if s, ok := constString(CallOf(in).Args[0]); ok {
					restored = append(restored, rk{s, in, fn})
				} else {
					r.Unk("C16.R4", "restore key in "+FuncName(fn), p.InstrPos(in), "non-constant key")
				}
			}
		})
	}
	sort.Slice(restored, func(i, j int) bool { return restored[i].in.Pos() < restored[j].in.Pos() })
	for _, k := range restored {
		r.Fn(FuncName(k.fn))
		lk := strings.ToLower(k.key)
		switch {
		case !tags[lk]:
			r.Bad("C16.R4", "restore key "+k.key, p.InstrPos(k.in), "start-up restores the key "+k.key+" but no status message with that tag is ever published, so nothing is ever saved under it")
		case nosave[lk]:
			r.Bad("C16.R4", "restore key "+k.key, p.InstrPos(k.in), "start-up restores the key "+k.key+" but it is on the no-save list, so it is never written to the configuration file")
		default:
			r.OK("C16.R4", "restore key "+k.key, p.InstrPos(k.in), "published tag, persisted")
		}
	}
	// saveState persists every cached key except the no-save list
	for _, fn := range p.LibFuncs() {
		var sets []ssa.Instruction
		Instrs(fn, func(in ssa.Instruction) {
			if IsCallTo(in, viperPkg+".Set") && InLoop(in) {
				sets = append(sets, in)
			}
		})
		for _, s := range sets {
			r.Fn(FuncName(fn))
			var extra []string
			ok := false
			for _, ci := range controllingIfs(s.Block()) {
				// allowed: the range's own ok test, and a lookup in the no-save global
				cond := ci.If.Cond
				if e, isE := cond.(*ssa.Extract); isE {
					if _, isNext := e.Tuple.(*ssa.Next); isNext {
						continue
					}
					if lk, isLk := e.Tuple.(*ssa.Lookup); isLk {
						if u, isU := lk.X.(*ssa.UnOp); isU {
							if g, isG := u.X.(*ssa.Global); isG && g.Name() == "nosaveMessages" {
								ok = true
								continue
							}
						}
					}
				}
				extra = append(extra, p.InstrPos(ci.If))
			}
			// the loop ranges over the parameter map
			ranged := false
			Instrs(fn, func(in ssa.Instruction) {
				if rg, isR := in.(*ssa.Range); isR {
					if _, isP := rg.X.(*ssa.Parameter); isP {
						ranged = true
					}
				}
			})
			r.Check(len(extra) == 0 && ranged && ok, "C16.R4", "persist loop in "+FuncName(fn), p.InstrPos(s),
				"every cached key except the no-save list is written to the configuration",
				fmt.Sprintf("the persist loop must range over the whole cache and skip only the no-save list (extra conditions at %v, ranges over cache=%v, no-save test=%v)", extra, ranged, ok))
		}
	}
}

// ---- R5: per-loop range variable whose address outlives the iteration -----------------------

func loopVarAliasRule(p *Prog, r *Report, rule string) {
	n := 0
	for _, fn := range p.LibFuncs() {
		loops := RangeLoops(fn)
		if len(loops) == 0 {
			continue
		}
		for _, l := range loops {
			n++
			// allocs outside the loop that are (re)assigned from the loop element inside the loop
			Instrs(fn, func(in ssa.Instruction) {
				st, ok := in.(*ssa.Store)
				if !ok || !l.Contains(st.Block()) || st.Block() == l.Header {
					return
				}
				al, ok := st.Addr.(*ssa.Alloc)
				if !ok || l.Contains(al.Block()) {
					return
				}
				if !l.IsElem(st.Val) {
					return
				}
				// is the address (or a field address of it) stored as a value inside the loop?
				for _, ref := range *al.Referrers() {
					check := func(v ssa.Value, at ssa.Instruction) {
						for _, r2 := range *v.Referrers() {
							s2, ok := r2.(*ssa.Store)
							if ok && s2.Val == v && l.Contains(s2.Block()) {
								if _, toAlloc := s2.Addr.(*ssa.Alloc); toAlloc {
									continue
								}
								r.Bad(rule, "range variable address stored in "+FuncName(fn), p.InstrPos(s2),
									"the address of a range variable that is shared by all iterations (Go <= 1.21 loop semantics, see go.mod) is stored into a table: after the loop every entry points at the last element")
							}
						}
					}
					if fa, ok := ref.(*ssa.FieldAddr); ok && l.Contains(fa.Block()) {
						check(fa, fa)
					}
				}
				check0 := func() {
					for _, r2 := range *al.Referrers() {
						if s2, ok := r2.(*ssa.Store); ok && s2.Val == ssa.Value(al) && l.Contains(s2.Block()) {
							r.Bad(rule, "range variable address stored in "+FuncName(fn), p.InstrPos(s2), "the address of a range variable shared by all iterations is stored into a table")
						}
					}
				}
				check0()
			})
		}
	}
	r.OK(rule, "range loops examined", "-", fmt.Sprintf("%d range loops: no address of a shared range variable is stored", n))
}

// ---- additions after the second round of seeded changes ---------------------------------------

// c16More: (R3) nothing is ever deleted from the replay caches of the client updater, neither in
// the updater nor in a function that is handed a cache; (R4) the destination handed to
// viper.UnmarshalKey has no slice- or map-typed field set beforehand: the decoder merges into
// existing slices (the restored list keeps the default's tail), so the restored configuration
// would not be the saved one.
func c16More(p *Prog, r *Report) {
	upd := p.Func("", "", "RunClientUpdater")
	if upd == nil {
		return
	}
	// caches and the parameters they flow into
	caches, canon, _, _ := c16Caches(upd)
	// every value of the updater that is one of the caches (the map itself, or a read of the
	// struct field it is kept in)
	isCacheVal := func(v ssa.Value) bool { return caches[canon(v)] }
	_ = isCacheVal
	type site struct {
		fn *ssa.Function
		v  ssa.Value
	}
	work := []site{}
	for c := range caches {
		work = append(work, site{upd, c})
	}
	Instrs(upd, func(in ssa.Instruction) {
		if v, ok := in.(ssa.Value); ok && canon(v) != v && caches[canon(v)] {
			work = append(work, site{upd, v})
		}
	})
	seen := map[ssa.Value]bool{}
	var dels []ssa.Instruction
	nfn := 0
	for len(work) > 0 {
		s := work[0]
		work = work[1:]
		if seen[s.v] {
			continue
		}
		seen[s.v] = true
		nfn++
		Instrs(s.fn, func(in ssa.Instruction) {
			cc := CallOf(in)
			if cc == nil {
				return
			}
			if b, ok := cc.Value.(*ssa.Builtin); ok && b.Name() == "delete" && len(cc.Args) > 0 && cc.Args[0] == s.v {
				dels = append(dels, in)
			}
			if callee := cc.StaticCallee(); callee != nil && callee.Blocks != nil {
				for i, a := range cc.Args {
					if a == s.v && i < len(callee.Params) {
						work = append(work, site{callee, callee.Params[i]})
					}
				}
			}
		})
	}
	pos := p.Pos(upd.Pos())
	if len(dels) > 0 {
		pos = p.InstrPos(dels[0])
	}
	r.Check(len(dels) == 0, "C16.R3", "nothing is deleted from the replay caches", pos, fmt.Sprintf("no delete on the caches in the updater or in the %d function(s) they are passed to", nfn-len(caches)),
		"an entry is deleted from the cache that answers a client's request for all status: after it, that topic is no longer replayed (and re-publishing the same value counts as unchanged, so it does not come back)")
	// R4: destinations of UnmarshalKey
	n := 0
	for _, fn := range p.LibFuncs() {
		Instrs(fn, func(in ssa.Instruction) {
			cc := CallOf(in)
			if cc == nil || cc.StaticCallee() == nil || cc.StaticCallee().Pkg == nil || cc.StaticCallee().Pkg.Pkg.Path() != viperPkg || cc.StaticCallee().Name() != "UnmarshalKey" {
				return
			}
			dst := cc.Args[1]
			if mi, ok := dst.(*ssa.MakeInterface); ok {
				dst = mi.X
			}
			al, ok := dst.(*ssa.Alloc)
			if !ok {
				return // a field of a long-lived object: not a fresh default-filled struct
			}
			n++
			key, _ := constString(cc.Args[0])
			bad := ""
			Instrs(fn, func(x ssa.Instruction) {
				st, ok := x.(*ssa.Store)
				if !ok || addrRoot(st.Addr) != ssa.Value(al) || !InstrReaches(st, in) {
					return
				}
				switch st.Val.Type().Underlying().(type) {
				case *types.Slice, *types.Map:
					if c, isC := st.Val.(*ssa.Const); isC && c.Value == nil {
						return
					}
					bad = p.InstrPos(st)
				}
			})
			r.Fn(FuncName(fn))
			r.Check(bad == "", "C16.R4", fmt.Sprintf("restore of %q decodes into a destination without pre-set lists", key), p.InstrPos(in), "only scalar defaults are set before decoding",
				"a slice or map field of the destination is given a default value at "+bad+" before viper.UnmarshalKey: the decoder merges element-wise into the existing list, so a saved list shorter than the default comes back with the default's tail appended, is announced, and overwrites the saved configuration")
		})
	}
}

// localMapAliases: a map kept in a field of a local struct variable (assigned once, at the
// variable's construction) is the same map at every read of that field: returns a function that
// sends such reads to the map value stored there, and any other value to itself.
func localMapAliases(fn *ssa.Function) func(ssa.Value) ssa.Value {
	alias := map[ssa.Value]ssa.Value{}
	Instrs(fn, func(in ssa.Instruction) {
		a, ok := in.(*ssa.Alloc)
		if !ok {
			return
		}
		st := derefStruct(a.Type())
		if st == nil {
			return
		}
		stored := map[int][]ssa.Value{}
		loads := map[int][]ssa.Value{}
		clean := true
		for _, ref := range *a.Referrers() {
			fa, ok := ref.(*ssa.FieldAddr)
			if !ok {
				if _, isDbg := ref.(*ssa.DebugRef); !isDbg {
					clean = false // the struct as a whole goes somewhere: its fields may be rewritten there
				}
				continue
			}
			for _, r2 := range *fa.Referrers() {
				switch x := r2.(type) {
				case *ssa.Store:
					if x.Addr == ssa.Value(fa) {
						stored[fa.Field] = append(stored[fa.Field], x.Val)
					}
				case *ssa.UnOp:
					loads[fa.Field] = append(loads[fa.Field], x)
				}
			}
		}
		if !clean {
			return
		}
		for k, vals := range stored {
			if len(vals) != 1 {
				continue
			}
			if _, isMap := vals[0].Type().Underlying().(*types.Map); !isMap {
				continue
			}
			for _, ld := range loads[k] {
				alias[ld] = vals[0]
			}
		}
	})
	return func(v ssa.Value) ssa.Value {
		if c, ok := alias[v]; ok {
			return c
		}
		return v
	}
}

// c16PrivateStoreComplete: inst is a configuration store of its own (viper.New()) that is written
// to the file in place of the shared store.  It must have been filled from the shared store's
// whole contents: a loop over viper.AllSettings() that sets every key on it.  Returns "" when that
// is so, else what is wrong.
func c16PrivateStoreComplete(p *Prog, inst ssa.Value) string {
	// where the store was made: follow the value back through a helper's result
	var made *ssa.Call
	var seek func(v ssa.Value, d int)
	seek = func(v ssa.Value, d int) {
		if v == nil || d > 4 || made != nil {
			return
		}
		switch x := v.(type) {
		case *ssa.Call:
			if CalleeName(&x.Call) == viperPkg+".New" {
				made = x
				return
			}
			if g := x.Call.StaticCallee(); isModuleFn(g) {
				Instrs(g, func(in ssa.Instruction) {
					if ret, ok := in.(*ssa.Return); ok {
						for _, rv := range ret.Results {
							if strings.HasSuffix(rv.Type().String(), "viper.Viper") {
								seek(rv, d+1)
							}
						}
					}
				})
			}
		case *ssa.Extract:
			if call, ok := x.Tuple.(*ssa.Call); ok {
				if g := call.Call.StaticCallee(); isModuleFn(g) {
					Instrs(g, func(in ssa.Instruction) {
						if ret, ok := in.(*ssa.Return); ok && x.Index < len(ret.Results) {
							seek(returnedValue(ret, x.Index), d+1)
						}
					})
				}
			}
		case *ssa.Phi:
			for _, e := range x.Edges {
				seek(e, d+1)
			}
		case *ssa.UnOp:
			if rv := resolveCell(x); rv != nil && rv != ssa.Value(x) {
				seek(rv, d+1)
			}
		}
	}
	seek(inst, 0)
	if made == nil {
		return "the store that is written to the file is not the shared one, and where it was filled could not be followed"
	}
	fn := made.Parent()
	full := false
	Instrs(fn, func(in ssa.Instruction) {
		rg, ok := in.(*ssa.Range)
		if !ok {
			return
		}
		src, ok := rg.X.(*ssa.Call)
		if !ok || CalleeName(&src.Call) != viperPkg+".AllSettings" {
			return
		}
		// a Set on the private store inside that loop
		Instrs(fn, func(y ssa.Instruction) {
			cc := CallOf(y)
			if cc == nil || CalleeName(cc) != "(*"+viperPkg+".Viper).Set" || len(cc.Args) == 0 {
				return
			}
			if (cc.Args[0] == ssa.Value(made) || resolveCell(cc.Args[0]) == ssa.Value(made)) && BlockReaches(rg.Block(), y.Block()) && InLoop(y) {
				full = true
			}
		})
	})
	if full {
		return ""
	}
	return "the file is written from a store of its own made at " + p.InstrPos(made) + " that is not filled from the shared store's whole contents (no loop over viper.AllSettings() setting every key on it): it holds only what was set on it in this run, so settings that were loaded from the file at start-up and not published again (the trigger settings, when no source was started) are dropped from the saved file"
}
