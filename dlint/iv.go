package main

// Closed forms of linear induction variables.  A value carried round a counting loop
// (`for c := 0; c < N; c++`) and moved by a loop-invariant step on every way round is
// init + step*c inside the loop, and init + step*N after it when the loop can only be left
// through its bound test.  A loop nested inside and run to completion counts as one step of
// (inner step * inner bound).  This lets a running counter ("readIdx += 2" in two nested loops)
// be compared with the index arithmetic it replaces, as polynomials; no loop is executed.

import (
	"fmt"
	"go/token"
	"strings"

	"golang.org/x/tools/go/ssa"
)

// ivLoop: header block h holds a counter phi [0, counter+1] tested `counter < bound`.
type ivLoop struct {
	header  *ssa.BasicBlock
	counter *ssa.Phi
	bound   ssa.Value
}

func ivLoopAt(h *ssa.BasicBlock) *ivLoop {
	if len(h.Instrs) == 0 {
		return nil
	}
	iff, ok := h.Instrs[len(h.Instrs)-1].(*ssa.If)
	if !ok {
		return nil
	}
	cmp, ok := iff.Cond.(*ssa.BinOp)
	if !ok || cmp.Op != token.LSS {
		return nil
	}
	ph, ok := cmp.X.(*ssa.Phi)
	if !ok || ph.Block() != h || len(ph.Edges) != 2 {
		return nil
	}
	zero, step := false, false
	for i, e := range ph.Edges {
		if h.Dominates(h.Preds[i]) {
			if bo, ok := e.(*ssa.BinOp); ok && bo.Op == token.ADD && bo.X == ssa.Value(ph) {
				if k, isC := constInt(bo.Y); isC && k == 1 {
					step = true
				}
			}
		} else if k, isC := constInt(e); isC && k == 0 {
			zero = true
		}
	}
	if !zero || !step {
		return nil
	}
	// the body is the true successor; the loop is left only from the header
	for _, b := range h.Parent().Blocks {
		if b == h || !naturalLoopContains(h, b) {
			continue
		}
		for _, sc := range b.Succs {
			if !naturalLoopContains(h, sc) {
				return nil
			}
		}
	}
	return &ivLoop{h, ph, cmp.Y}
}

// ivClosed: ph, a phi at the header of a counting loop, as init + step*counter (a polynomial over
// pc's symbols; the counter appears as its own phi symbol).  stepPerTrip is the total movement of
// one pass round the loop.
func ivClosed(pc *PolyCtx, ph *ssa.Phi, depth int) (closed Poly, step Poly, loop *ivLoop, ok bool) {
	if depth > 4 {
		return nil, nil, nil, false
	}
	h := ph.Block()
	loop = ivLoopAt(h)
	if loop == nil || ph == loop.counter {
		return nil, nil, nil, false
	}
	var init ssa.Value
	var haveStep bool
	for i, e := range ph.Edges {
		if !h.Dominates(h.Preds[i]) {
			if init != nil && init != e {
				return nil, nil, nil, false
			}
			init = e
			continue
		}
		// one way round the loop: e = ph + k, directly or as the exit value of an inner loop
		var k Poly
		switch x := e.(type) {
		case *ssa.BinOp:
			if x.Op != token.ADD || x.X != ssa.Value(ph) {
				return nil, nil, nil, false
			}
			k = pc.Of(x.Y)
		case *ssa.Phi:
			// the inner loop's carried value: starts as ph, moves by s per inner trip, bound N
			_, s, inner, okIn := ivClosed(pc, x, depth+1)
			if !okIn || !naturalLoopContains(h, x.Block()) {
				return nil, nil, nil, false
			}
			var innerInit ssa.Value
			for j, e2 := range x.Edges {
				if !x.Block().Dominates(x.Block().Preds[j]) {
					innerInit = e2
				}
			}
			if innerInit != ssa.Value(ph) {
				return nil, nil, nil, false
			}
			k = s.Mul(pc.Of(inner.bound))
		default:
			return nil, nil, nil, false
		}
		// the step must not vary inside the loop
		for _, sym := range k.Symbols() {
			if strings.HasPrefix(sym, "phi#") {
				if v, okv := pc.symValue(sym); okv {
					if in, isIn := v.(ssa.Instruction); isIn && naturalLoopContains(h, in.Block()) {
						return nil, nil, nil, false
					}
				}
			}
		}
		if haveStep && !k.Equal(step) {
			return nil, nil, nil, false
		}
		step, haveStep = k, true
	}
	if init == nil || !haveStep {
		return nil, nil, nil, false
	}
	counterSym := polySym(fmt.Sprintf("phi#%d", pc.id(loop.counter)))
	return pc.Of(init).Add(step.Mul(counterSym)), step, loop, true
}

// closeIVs replaces, in q, every phi symbol that is a linear induction variable by its closed
// form, repeatedly (an inner variable starts from an outer one).
func closeIVs(pc *PolyCtx, q Poly) Poly {
	for round := 0; round < 6; round++ {
		changed := false
		for _, sym := range q.Symbols() {
			if !strings.HasPrefix(sym, "phi#") {
				continue
			}
			v, ok := pc.symValue(sym)
			if !ok {
				continue
			}
			ph, isPhi := v.(*ssa.Phi)
			if !isPhi {
				continue
			}
			closed, _, _, okc := ivClosed(pc, ph, 0)
			if !okc {
				continue
			}
			coef, rest, okl := q.SplitLinear(sym)
			if !okl {
				continue
			}
			q = coef.Mul(closed).Add(rest)
			changed = true
		}
		if !changed {
			break
		}
	}
	return q
}

// symValue: the SSA value a phi#N symbol stands for.
func (c *PolyCtx) symValue(sym string) (ssa.Value, bool) {
	if c.symVal != nil {
		if v, ok := c.symVal[sym]; ok {
			return v, true
		}
	}
	for v, id := range c.ids {
		if fmt.Sprintf("phi#%d", id) == sym {
			return v, true
		}
	}
	return nil, false
}
