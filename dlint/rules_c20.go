package main

import (
	"fmt"
	"go/constant"
	"go/token"
	"go/types"
	"sort"
	"strings"

	"golang.org/x/tools/go/ssa"
)

func init() {
	register(&RuleSet{
		Property: "C20",
		Explanation: "Decides the structural clauses of the run-log side files (experiment state, external trigger, data drop): " +
			"(R1) STOP: on every path to the normal exit each open side file is flushed, then closed, then both its handles are cleared, the STOP label is written before the state file is closed, and all three file names are cleared unconditionally (nothing carries over); START assigns all three names from the new run's pattern with distinct constant stems and writes the START label on every success path; side files are created only from the current name, under a nil test of the handle; " +
			"(R2) exactly one write per event: an external-trigger block with a writer and a non-empty list is written once, as the byte view of the whole list; a block with dropped frames while writing is active appends exactly one line holding its first frame and drop count, gated only by the drop count and the activity predicate; every accepted label request (nil result) has passed through exactly one label line write; " +
			"(R3) the side-file handles are touched only by the writing-state methods and the two block handlers. " +
			"Does not decide: file contents versus an event log, behaviour under I/O failures.",
		RuleDocs: []string{
			"C20.R1 typestate / must-pass-through on WritingState.Stop and Start; creation sites",
			"C20.R4 every fmt.Fprintf whose destination is a side file of the writing state (the file or its buffered writer) has a constant format string (the client's label is never the format)",
			"C20.R2 occurrence counting of writes per call; argument provenance; control dependence of the line write; the label recorded for UNPAUSE is a part of the request text as it came (slicing, trimming, cutting a prefix), not of a copy changed by strings.ToUpper or the like",
			"C20.R3 who-may-touch the handle fields; a side file with a buffered writer is written only through it",
			"C20.R2 (additions) each block handler is called exactly once per block outside any loop; every successful return of the UNPAUSE arm has passed the label test",
		},
		Assumptions: []string{"WritingState and the names of its handle / file-name fields are name-keyed anchors (handles = fields of type *os.File and *bufio.Writer)"},
		Run:         runC20,
	})
}

const wsT = "WritingState"

type sideFile struct {
	file, writer, name string
}

// discoverSideFiles pairs *os.File fields with *bufio.Writer and file-name fields by prefix.
func discoverSideFiles(p *Prog) []sideFile {
	nt := p.NamedType("", wsT)
	if nt == nil {
		return nil
	}
	st := nt.Underlying().(*types.Struct)
	var files, writers, names []string
	for i := 0; i < st.NumFields(); i++ {
		f := st.Field(i)
		ts := f.Type().String()
		switch {
		case ts == "*os.File":
			files = append(files, f.Name())
		case ts == "*bufio.Writer":
			writers = append(writers, f.Name())
		case strings.HasSuffix(f.Name(), "Filename"):
			names = append(names, f.Name())
		}
	}
	var out []sideFile
	for _, f := range files {
		stem := strings.ToLower(strings.TrimSuffix(f, "File"))
		sf := sideFile{file: f}
		for _, w := range writers {
			if strings.HasPrefix(strings.ToLower(w), stem) {
				sf.writer = w
			}
		}
		for _, n := range names {
			if strings.HasPrefix(strings.ToLower(n), stem) {
				sf.name = n
			}
		}
		out = append(out, sf)
	}
	sort.Slice(out, func(i, j int) bool { return out[i].file < out[j].file })
	return out
}

// loadsField: v is a load of WritingState.<field>.
func loadsWS(v ssa.Value, field string) bool {
	// a local that holds the field's value, read again after the field was set: a merge of loads
	if ph, isPhi := v.(*ssa.Phi); isPhi && len(ph.Edges) > 0 {
		for _, e := range ph.Edges {
			if _, again := e.(*ssa.Phi); again || !loadsWS(e, field) {
				return false
			}
		}
		return true
	}
	o, f, _, ok := FieldOf(v)
	return ok && o == wsT && f == field
}

func isNilStoreTo(in ssa.Instruction, field string) bool {
	st, ok := in.(*ssa.Store)
	if !ok {
		return false
	}
	o, f, _, okf := FieldOf(st.Addr)
	if !okf || o != wsT || f != field {
		return false
	}
	c, isC := st.Val.(*ssa.Const)
	return isC && c.Value == nil
}

func isEmptyStringStoreTo(in ssa.Instruction, field string) bool {
	st, ok := in.(*ssa.Store)
	if !ok {
		return false
	}
	o, f, _, okf := FieldOf(st.Addr)
	if !okf || o != wsT || f != field {
		return false
	}
	c, isC := st.Val.(*ssa.Const)
	return isC && c.Value != nil && c.Value.Kind() == constant.String && constant.StringVal(c.Value) == ""
}

// returnedValue resolves a result of a return, seeing through the spill cell go/ssa uses
// when the function has deferred calls (*cell = v; rundefers; return *cell).
func returnedValue(ret *ssa.Return, i int) ssa.Value {
	return resolveSpilled(ret.Results[i], ret, 0)
}

// resolveSpilled follows loads of a local cell (named results are spilled to memory when the
// function defers) back to the value stored: the last store before the load in its block, else
// the closest dominating store when no other store can intervene.
func resolveSpilled(v ssa.Value, at ssa.Instruction, depth int) ssa.Value {
	u, ok := v.(*ssa.UnOp)
	if !ok || u.Op != token.MUL || depth > 6 {
		return v
	}
	a, ok := u.X.(*ssa.Alloc)
	if !ok {
		return v
	}
	var last *ssa.Store
	for _, in := range u.Block().Instrs {
		if st, ok := in.(*ssa.Store); ok && st.Addr == ssa.Value(a) {
			last = st
		}
		if in == ssa.Instruction(u) {
			break
		}
	}
	if last != nil {
		return resolveSpilled(last.Val, last, depth+1)
	}
	var cands []*ssa.Store
	for _, ref := range *a.Referrers() {
		if st, ok := ref.(*ssa.Store); ok && st.Addr == ssa.Value(a) {
			cands = append(cands, st)
		}
	}
	for _, c := range cands {
		if !InstrDominates(c, u) {
			continue
		}
		closest := true
		for _, o := range cands {
			if o == c {
				continue
			}
			if InstrDominates(o, u) {
				if !InstrDominates(o, c) {
					closest = false
				}
			} else if InstrReaches(c, o) && InstrReaches(o, u) {
				closest = false // a store on some path between c and the load
			}
		}
		if closest {
			return resolveSpilled(c.Val, c, depth+1)
		}
	}
	return v
}

// isNilErrReturn: a return whose error result is the nil constant.
func isNilErrReturn(in ssa.Instruction) bool {
	ret, ok := in.(*ssa.Return)
	if !ok || len(ret.Results) == 0 {
		return false
	}
	c, isC := returnedValue(ret, len(ret.Results)-1).(*ssa.Const)
	return isC && c.Value == nil
}

// normalExit: the success exits of fn: returns with a nil error when fn's last result is an error,
// every return otherwise.
func normalExit(fn *ssa.Function) func(ssa.Instruction) bool {
	res := fn.Signature.Results()
	if res.Len() > 0 && types.Identical(res.At(res.Len()-1).Type(), types.Universe.Lookup("error").Type()) {
		return isNilErrReturn
	}
	return isReturn
}

func runC20(p *Prog, r *Report) {
	r.MinInstances["C20.R1"] = 16
	r.MinInstances["C20.R2"] = 8
	r.MinInstances["C20.R3"] = 5
	defer c20R4(p, r)
	sfs := discoverSideFiles(p)
	if len(sfs) != 3 {
		r.Unk("C20.anchor", "side files of "+wsT, "-", fmt.Sprintf("expected 3 *os.File fields, found %d", len(sfs)))
		return
	}
	c20Stop(p, r, sfs)
	c20Start(p, r, sfs)
	c20Create(p, r, sfs)
	c20Events(p, r, sfs)
	c20Who(p, r, sfs)
	c20More(p, r, sfs)
}

func methodCallOn(in ssa.Instruction, field, method string) bool {
	cc := CallOf(in)
	if cc == nil || len(cc.Args) == 0 {
		return false
	}
	n := CalleeName(cc)
	if !strings.HasSuffix(n, ")."+method) {
		return false
	}
	return loadsWS(cc.Args[0], field)
}

func c20Stop(p *Prog, r *Report, sfs []sideFile) {
	stop := p.Func("", wsT, "Stop")
	if stop == nil {
		r.Unk("C20.R1", "WritingState.Stop", "-", "anchor not found")
		return
	}
	r.Fn(FuncName(stop))
	// the closing sequence of a file may sit in Stop or in a helper method Stop calls
	// method calls on a handle, also when the handle reaches a helper as an argument
	findOn := func(field, method string) []DeepInstr {
		var out []DeepInstr
		InstrsDeep(stop, 2, func(d DeepInstr) {
			cc := CallOf(d.In)
			if cc == nil || len(cc.Args) == 0 || !strings.HasSuffix(CalleeName(cc), ")."+method) {
				return
			}
			if loadsWS(cc.Args[0], field) || loadsWS(ArgForParam(d.Path, cc.Args[0]), field) {
				out = append(out, d)
			}
		})
		return out
	}
	for _, sf := range sfs {
		closes := findOn(sf.file, "Close")
		key := "STOP: " + sf.file
		if len(closes) == 0 {
			r.Bad("C20.R1", key+" is closed", p.Pos(stop.Pos()), "Stop never closes this file")
			continue
		}
		cd := closes[len(closes)-1]
		closeCall := cd.In
		host := closeCall.Parent()
		if host != stop {
			r.Fn(FuncName(host))
		}
		// close only under a non-nil test of the handle (in the function that closes, or around the call of the helper)
		guarded := false
		for _, at := range append([]ssa.Instruction{closeCall}, cd.Path...) {
			for _, c := range controllingIfs(at.Block()) {
				if bo, ok := c.If.Cond.(*ssa.BinOp); ok && (loadsWS(bo.X, sf.file) || loadsWS(ArgForParam(cd.Path, bo.X), sf.file)) {
					if (bo.Op == token.NEQ && c.Branch == 0) || (bo.Op == token.EQL && c.Branch == 1) {
						guarded = true
					}
				}
			}
		}
		r.Check(guarded, "C20.R1", key+" is closed only when open", p.InstrPos(closeCall), "close under a non-nil test of the handle", "Close is not guarded by a non-nil test of the handle")
		// ... and always when open: from the non-nil side of that test no normal exit of the closing
		// function is reachable without passing the Close (no other condition may skip it)
		if guarded {
			skipped := ""
			for _, c := range controllingIfs(closeCall.Block()) {
				bo, ok := c.If.Cond.(*ssa.BinOp)
				if !ok || !(loadsWS(bo.X, sf.file) || loadsWS(ArgForParam(cd.Path, bo.X), sf.file)) {
					continue
				}
				if !((bo.Op == token.NEQ && c.Branch == 0) || (bo.Op == token.EQL && c.Branch == 1)) {
					continue
				}
				// from the entry of the closing function: every way to a normal exit passes the
				// Close or the nil side of this handle's own test
				nilSide := c.If.Block().Succs[1-c.Branch]
				miss := ReachAvoiding(host, nil, func(x ssa.Instruction) bool {
					return x == closeCall || (len(nilSide.Preds) == 1 && x.Block() == nilSide && x == nilSide.Instrs[0]) || (len(nilSide.Preds) != 1 && x == ssa.Instruction(c.If))
				}, normalExit(host))
				if len(nilSide.Preds) != 1 {
					// the nil side joins other paths at once: fall back to the open side only
					open := c.If.Block().Succs[c.Branch]
					miss = nil
					if len(open.Instrs) > 0 && open.Instrs[0] != closeCall {
						miss = ReachAvoiding(host, open.Instrs[0], func(x ssa.Instruction) bool { return x == closeCall }, normalExit(host))
					}
				}
				if len(miss) > 0 {
					skipped = p.InstrPos(miss[0])
				}
			}
			r.Check(skipped == "", "C20.R1", key+" is closed whenever it is open", p.InstrPos(closeCall), "no way from the open side of the handle test to a normal exit misses the Close",
				"with the file open, the normal exit at "+skipped+" is reachable without closing it (another condition skips the flush and close): the handles are cleared all the same, the descriptor leaks, and what a later flush would have written never reaches the file")
		}
		if sf.writer != "" {
			flushes := findOn(sf.writer, "Flush")
			okF := false
			for _, f := range flushes {
				okF = okF || DeepDominates(f, cd)
			}
			r.Check(okF, "C20.R1", key+" is flushed before it is closed", p.InstrPos(closeCall), "Flush dominates Close", "the buffered writer is not flushed before the file is closed: the tail of the log is lost")
		}
		// after Close, every path to the normal exit clears the handles
		for _, h := range []string{sf.file, sf.writer} {
			if h == "" {
				continue
			}
			miss := ReachAvoiding(host, closeCall, MustPass(func(in ssa.Instruction) bool { return isNilStoreTo(in, h) }, 2), normalExit(host))
			if len(miss) > 0 && host != stop && len(cd.Path) > 0 && cd.Path[0].Parent() == stop {
				// the helper closes a file it was handed; the handles are cleared by Stop after the call
				miss = ReachAvoiding(stop, cd.Path[0], MustPass(func(in ssa.Instruction) bool { return isNilStoreTo(in, h) }, 2), normalExit(stop))
			}
			r.Check(len(miss) == 0, "C20.R1", key+": handle "+h+" is cleared after closing", p.InstrPos(closeCall), "nil stored on every path to the normal exit", "after closing, a normal exit is reachable with the handle still set: the next run writes into a closed file")
		}
		// the file name is cleared on every path to the normal exit, whether or not the file was opened
		if sf.name != "" {
			miss := ReachAvoiding(stop, nil, MustPass(func(in ssa.Instruction) bool { return isEmptyStringStoreTo(in, sf.name) }, 2), isNilErrReturn)
			pos := p.Pos(stop.Pos())
			if len(miss) > 0 {
				pos = p.InstrPos(miss[0])
			}
			r.Check(len(miss) == 0, "C20.R1", "STOP: file name "+sf.name+" is cleared on every path", pos, "unconditional", "a normal exit of Stop is reachable without clearing this name (e.g. when the file was never opened): events arriving after STOP create the old run's file, and the next run writes into it")
		}
	}
	// STOP label before the state file is closed
	labels := FindDeep(stop, 2, func(in ssa.Instruction) bool {
		if call, ok := in.(*ssa.Call); ok {
			if c := call.Call.StaticCallee(); c != nil && c == c20LabelWriter(p) {
				for _, a := range call.Call.Args {
					if cst, ok := a.(*ssa.Const); ok && cst.Value != nil && cst.Value.Kind() == constant.String && constant.StringVal(cst.Value) == "STOP" {
						return true
					}
				}
			}
		}
		return false
	})
	closeStates := FindDeep(stop, 2, func(in ssa.Instruction) bool { return methodCallOn(in, "experimentStateFile", "Close") })
	okLabel := len(labels) > 0 && len(closeStates) > 0
	for _, c := range closeStates {
		dom := false
		for _, l := range labels {
			dom = dom || DeepDominates(l, c)
		}
		okLabel = okLabel && dom
	}
	r.Check(okLabel, "C20.R1", "STOP: the STOP label is written before the state file is closed", p.Pos(stop.Pos()), "label call dominates Close", "the state file can be closed without the final STOP line")
	// Active cleared
	miss := ReachAvoiding(stop, nil, func(in ssa.Instruction) bool {
		st, ok := in.(*ssa.Store)
		if !ok {
			return false
		}
		o, f, _, okf := FieldOf(st.Addr)
		c, isC := st.Val.(*ssa.Const)
		return okf && o == wsT && f == "Active" && isC && c.Value != nil && c.Value.ExactString() == "false"
	}, isReturn)
	r.Check(len(miss) == 0, "C20.R1", "STOP: the active flag is cleared on every path", p.Pos(stop.Pos()), "Active=false before every return", "Stop can return with the active flag still set")
}

func c20Start(p *Prog, r *Report, sfs []sideFile) {
	start := p.Func("", wsT, "Start")
	if start == nil {
		r.Unk("C20.R1", "WritingState.Start", "-", "anchor not found")
		return
	}
	r.Fn(FuncName(start))
	stems := map[string]string{}
	for _, sf := range sfs {
		if sf.name == "" {
			continue
		}
		okN := false
		stem := ""
		for _, st := range StoresTo(start, wsT, sf.name) {
			call, ok := st.Val.(*ssa.Call)
			if !ok {
				continue
			}
			// Sprintf(pattern, stem, ext), directly or through a one-line helper / closure
			var path []ssa.Instruction
			if CalleeName(&call.Call) != "fmt.Sprintf" {
				h := call.Call.StaticCallee()
				inner, _ := singleReturn(h).(*ssa.Call)
				if !isModuleFn(h) || len(h.Blocks) != 1 || inner == nil || CalleeName(&inner.Call) != "fmt.Sprintf" {
					continue
				}
				path = []ssa.Instruction{call}
				call = inner
			}
			if resolveCell(ArgForParam(path, call.Call.Args[0])) != ssa.Value(start.Params[1]) {
				continue
			}
			// first variadic element: the constant stem
			if sl, ok := call.Call.Args[1].(*ssa.Slice); ok {
				if a, ok := sl.X.(*ssa.Alloc); ok {
					for _, ref := range *a.Referrers() {
						if ia, ok := ref.(*ssa.IndexAddr); ok {
							if k, _ := constInt(ia.Index); k == 0 {
								for _, r2 := range *ia.Referrers() {
									if s2, ok := r2.(*ssa.Store); ok {
										if mi, ok := s2.Val.(*ssa.MakeInterface); ok {
											if c, ok := ArgForParam(path, mi.X).(*ssa.Const); ok && c.Value != nil {
												stem = constant.StringVal(c.Value)
											}
										}
									}
								}
							}
						}
					}
				}
			}
			// on every path to a return
			miss := ReachAvoiding(start, nil, func(in ssa.Instruction) bool { return in == ssa.Instruction(st) }, isReturn)
			if len(miss) == 0 && stem != "" {
				okN = true
			}
		}
		stems[sf.name] = stem
		r.Check(okN, "C20.R1", "START: "+sf.name+" is set from the new run's pattern", p.Pos(start.Pos()), "Sprintf(pattern, \""+stem+"\", ext) on every path", "Start does not assign this file name from the new pattern on every path: the side file of the previous run is reused")
	}
	distinct := map[string]bool{}
	for _, s := range stems {
		distinct[s] = true
	}
	r.Check(len(distinct) == len(stems) && len(stems) == 3, "C20.R1", "START: the three side files get distinct names", p.Pos(start.Pos()), fmt.Sprint(stems), "two side files share a name stem")
	// START label on every success path
	var label ssa.Instruction
	Instrs(start, func(in ssa.Instruction) {
		if call, ok := in.(*ssa.Call); ok {
			if c := call.Call.StaticCallee(); c != nil && c == c20LabelWriter(p) {
				for _, a := range call.Call.Args {
					if cst, ok := a.(*ssa.Const); ok && cst.Value != nil && cst.Value.Kind() == constant.String && constant.StringVal(cst.Value) == "START" {
						label = in
					}
				}
			}
		}
	})
	miss := ReachAvoiding(start, nil, func(in ssa.Instruction) bool { return in == label }, isReturn)
	r.Check(label != nil && len(miss) == 0, "C20.R1", "START: the START label is written on every path", p.Pos(start.Pos()), "label call before every return", "Start can return without writing the START line")
}

func c20Create(p *Prog, r *Report, sfs []sideFile) {
	for _, fn := range p.LibFuncs() {
		Instrs(fn, func(in ssa.Instruction) {
			if !IsCallTo(in, "os.Create") {
				return
			}
			call := in.(*ssa.Call)
			// which side file?
			var sf *sideFile
			for _, ref := range *call.Referrers() {
				if ex, ok := ref.(*ssa.Extract); ok && ex.Index == 0 {
					for _, r2 := range *ex.Referrers() {
						if st, ok := r2.(*ssa.Store); ok {
							for i := range sfs {
								if o, f, _, okf := FieldOf(st.Addr); okf && o == wsT && f == sfs[i].file {
									sf = &sfs[i]
								}
							}
						}
					}
				}
			}
			if sf == nil {
				return
			}
			r.Fn(FuncName(fn))
			key := "creation of " + sf.file + " in " + FuncName(fn)
			r.Check(loadsWS(call.Call.Args[0], sf.name), "C20.R1", key+" uses the current file name", p.InstrPos(in), "os.Create("+sf.name+")", "the side file is created from something other than the current run's name field")
			guarded := false
			for _, c := range controllingIfs(in.Block()) {
				if bo, ok := c.If.Cond.(*ssa.BinOp); ok {
					if (loadsWS(bo.X, sf.file) || (sf.writer != "" && loadsWS(bo.X, sf.writer))) && ((bo.Op == token.EQL && c.Branch == 0) || (bo.Op == token.NEQ && c.Branch == 1)) {
						guarded = true
					}
				}
			}
			if !guarded {
				// the creation sits in a helper: the nil test is around each of its calls
				if sites, complete := p.staticCallSites(fn); complete && len(sites) > 0 {
					all := true
					for _, site := range sites {
						g := false
						for _, c := range controllingIfs(site.Block()) {
							if bo, ok := c.If.Cond.(*ssa.BinOp); ok {
								if (loadsWS(bo.X, sf.file) || (sf.writer != "" && loadsWS(bo.X, sf.writer))) && ((bo.Op == token.EQL && c.Branch == 0) || (bo.Op == token.NEQ && c.Branch == 1)) {
									g = true
								}
							}
						}
						all = all && g
					}
					guarded = all
				}
			}
			r.Check(guarded, "C20.R1", key+" only when no handle is open", p.InstrPos(in), "under a nil test of the handle", "the side file can be re-created (truncated) while it is already open")
		})
	}
}

func c20Events(p *Prog, r *Report, sfs []sideFile) {
	// external triggers
	het := p.Func("", "AnySource", "HandleExternalTriggers")
	if het == nil {
		r.Unk("C20.R2", "HandleExternalTriggers", "-", "anchor not found")
	} else {
		r.Fn(FuncName(het))
		var w ssa.Instruction
		n := 0
		Instrs(het, func(in ssa.Instruction) {
			if methodCallOn(in, "externalTriggerFileBufferedWriter", "Write") {
				w = in
				n++
			}
		})
		exits := CountEvents(het, func(in ssa.Instruction) CountSet {
			if methodCallOn(in, "externalTriggerFileBufferedWriter", "Write") {
				return C1
			}
			return C0
		})
		atMostOnce := true
		for _, e := range exits {
			if e.Count&C2 != 0 {
				atMostOnce = false
			}
		}
		r.Check(n == 1 && atMostOnce, "C20.R2", "external triggers: at most one data write per block", p.Pos(het.Pos()), "one Write call, not in a loop", "the trigger list can be written more than once per block (or never)")
		if w != nil {
			arg := CallOf(w).Args[1]
			okArg := false
			if call, ok := arg.(*ssa.Call); ok && call.Call.StaticCallee() != nil && call.Call.StaticCallee().Name() == "FromSliceInt64" && call.Call.Args[0] == ssa.Value(het.Params[1]) {
				okArg = true
			}
			r.Check(okArg, "C20.R2", "external triggers: the whole list is written", p.InstrPos(w), "byte view of the whole parameter", "what is written is not the byte view of the complete list handed to the function (a sub-slice or a copy of part of it)")
			// the write is controlled only by "writer exists" and "list non-empty"
			extra := ""
			for _, c := range controllingIfs(w.Block()) {
				d := c05Describe(c.If.Cond, nil, 0)
				if strings.Contains(d, "externalTriggerFileBufferedWriter") || strings.Contains(d, "len(externalTriggerRowcounts)") {
					continue
				}
				extra = d
			}
			r.Check(extra == "", "C20.R2", "external triggers: the write depends only on writer-exists and list-non-empty", p.InstrPos(w), "no other condition", "the write is additionally conditional on `"+extra+"`: some delivered triggers are not recorded")
			// the writer that is used is the handle as it is now: a copy of the field read before a
			// point where the field is assigned (the lazy open, here or in a helper) is stale - nil
			// for exactly the block that opens the file, whose triggers are then not written
			assigns := func(x ssa.Instruction) bool {
				if st, ok := x.(*ssa.Store); ok {
					if o, f, _, okf := FieldOf(st.Addr); okf && o == wsT && f == "externalTriggerFileBufferedWriter" {
						return true
					}
				}
				if call, ok := x.(*ssa.Call); ok {
					if g := call.Call.StaticCallee(); g != nil && isModuleFn(g) && g.Blocks != nil {
						for _, h := range DeepFuncs(g, 1) {
							if len(StoresTo(h, wsT, "externalTriggerFileBufferedWriter")) > 0 {
								return true
							}
						}
					}
				}
				return false
			}
			stale := ""
			var checkVal func(v ssa.Value, until ssa.Instruction, d int)
			checkVal = func(v ssa.Value, until ssa.Instruction, d int) {
				if d > 3 || stale != "" {
					return
				}
				switch x := v.(type) {
				case *ssa.Phi:
					for i, e := range x.Edges {
						pred := x.Block().Preds[i]
						checkVal(e, pred.Instrs[len(pred.Instrs)-1], d+1)
					}
				case *ssa.UnOp:
					if x.Op != token.MUL {
						return
					}
					hits := ReachAvoiding(het, x, func(y ssa.Instruction) bool { return y == until }, assigns)
					// the assignment must also be able to go on to the use
					for _, h := range hits {
						if h == until || InstrReaches(h, until) {
							stale = p.InstrPos(h)
						}
					}
				}
			}
			checkVal(CallOf(w).Args[0], w, 0)
			r.Check(stale == "", "C20.R2", "external triggers: the writer used is the handle as it is at the write", p.InstrPos(w), "no assignment of the handle between reading it and using it",
				"the write goes through a copy of the handle that was read before the handle is assigned at "+stale+" (the lazy open): in the block that opens the file the copy is still nil, so that block's triggers are never written")
			// nothing can return between entry and the write except creation errors: every normal path with the conditions true passes it (structural: the write block post-dominates its condition)
		}
	}
	// data drops
	hdd := p.Func("", "AnySource", "HandleDataDrop")
	if hdd == nil {
		r.Unk("C20.R2", "HandleDataDrop", "-", "anchor not found")
	} else {
		r.Fn(FuncName(hdd))
		// the line may be written in the handler or in a helper of the writing state it calls
		// (its parameters then stand for the arguments of that call)
		var lines []ssa.Instruction
		var host *ssa.Function = hdd
		var hostSite ssa.Instruction
		isLineWrite := func(in ssa.Instruction) bool {
			if methodCallOn(in, "dataDropFileBufferedWriter", "WriteString") {
				// the header write has a constant argument
				_, isC := CallOf(in).Args[1].(*ssa.Const)
				return !isC
			}
			if IsCallTo(in, "fmt.Fprintf") && len(CallOf(in).Args) >= 3 {
				w := CallOf(in).Args[0]
				if mi, ok := w.(*ssa.MakeInterface); ok {
					w = mi.X
				}
				if loadsWS(w, "dataDropFileBufferedWriter") {
					if sl, isSl := CallOf(in).Args[2].(*ssa.Slice); isSl && sl != nil {
						return true
					}
				}
			}
			return false
		}
		Instrs(hdd, func(in ssa.Instruction) {
			if isLineWrite(in) {
				lines = append(lines, in)
			}
		})
		if len(lines) == 0 {
			Instrs(hdd, func(in ssa.Instruction) {
				cc := CallOf(in)
				if cc == nil || cc.IsInvoke() {
					return
				}
				h := cc.StaticCallee()
				if !isModuleFn(h) || len(h.Blocks) == 0 || len(h.Params) != len(cc.Args) {
					return
				}
				var inner []ssa.Instruction
				Instrs(h, func(y ssa.Instruction) {
					if isLineWrite(y) {
						inner = append(inner, y)
					}
				})
				if len(inner) > 0 {
					lines, host, hostSite = inner, h, in
					r.Fn(FuncName(h))
				}
			})
		}
		r.Check(len(lines) == 1 && !InLoop(lines[0]) && (hostSite == nil || !InLoop(hostSite)), "C20.R2", "data drops: one line write per block", p.Pos(hdd.Pos()), "one write of a formatted line", fmt.Sprintf("%d line writes in the handler", len(lines)))
		if len(lines) == 1 {
			w := lines[0]
			// the line is made of (firstFrameIndex, droppedFrames), in this order: the first frame
			// after the drop, then the number of frames dropped
			if hostSite != nil {
				for k, q := range host.Params {
					c05Subst[q] = c05Describe(CallOf(hostSite).Args[k], nil, 0)
				}
			}
			okLine := false
			var varargs ssa.Value
			if IsCallTo(w, "fmt.Fprintf") {
				varargs = CallOf(w).Args[2]
			} else if call, ok := CallOf(w).Args[1].(*ssa.Call); ok && CalleeName(&call.Call) == "fmt.Sprintf" {
				varargs = call.Call.Args[1]
			}
			gotLine := ""
			if varargs != nil {
				elems := map[int64]string{}
				if sl, ok := varargs.(*ssa.Slice); ok {
					if a, ok := sl.X.(*ssa.Alloc); ok {
						for _, ref := range *a.Referrers() {
							if ia, ok := ref.(*ssa.IndexAddr); ok {
								k, _ := constInt(ia.Index)
								for _, r2 := range *ia.Referrers() {
									if st, ok := r2.(*ssa.Store); ok {
										elems[k] = c05Describe(st.Val, nil, 0)
									}
								}
							}
						}
					}
				}
				gotLine = elems[0] + "," + elems[1]
				okLine = len(elems) == 2 && elems[0] == "firstFrameIndex" && elems[1] == "droppedFrames"
			}
			if hostSite != nil {
				for _, q := range host.Params {
					delete(c05Subst, q)
				}
			}
			_ = gotLine
			r.Check(okLine, "C20.R2", "data drops: the line holds the block's first frame and drop count", p.InstrPos(w), "Sprintf(firstFrameIndex, droppedFrames)", "the logged line is made of ("+gotLine+") in the handler's terms: it is not made of the block's first frame index and dropped-frame count")
			// control: only droppedFrames > 0 and the activity predicate (plus nothing else)
			var conds []string
			bad := ""
			// a gate kept in a flag (`active := false; if drops > 0 { active = ws.Active }; if active`)
			// stands for the conditions under which the flag was set
			var gates []string
			for _, c := range controllingIfs(w.Block()) {
				if ph, isPhi := c.If.Cond.(*ssa.Phi); isPhi && c.Branch == 0 {
					expanded := true
					var parts []string
					for i, e := range ph.Edges {
						if k, isC := e.(*ssa.Const); isC && k.Value != nil && k.Value.ExactString() == "false" {
							continue
						}
						parts = append(parts, c05Describe(e, nil, 0))
						pred := ph.Block().Preds[i]
						for _, c2 := range controllingIfs(pred) {
							parts = append(parts, c05Describe(c2.If.Cond, nil, 0))
						}
						if _, isC := e.(*ssa.Const); isC {
							expanded = false
						}
					}
					if expanded && len(parts) > 0 {
						gates = append(gates, parts...)
						continue
					}
				}
				gates = append(gates, c05Describe(c.If.Cond, nil, 0))
			}
			for _, d := range gates {
				conds = append(conds, d)
				switch {
				case strings.Contains(d, "droppedFrames"):
				case strings.HasPrefix(d, "IsActive("), strings.HasSuffix(d, ".Active"):
				case strings.Contains(d, "dataDropFileBufferedWriter"), strings.Contains(d, "dataDropFile"):
				case strings.Contains(d, "Extract") || strings.HasPrefix(d, "t"):
					// error tests of the creation calls
				default:
					bad = d
				}
			}
			hasActive := false
			for _, d := range conds {
				if strings.HasPrefix(d, "IsActive(") || strings.HasSuffix(d, ".Active") {
					hasActive = true
				}
			}
			r.Check(bad == "" && hasActive, "C20.R2", "data drops: the line is gated by drop count and the activity predicate only", p.InstrPos(w), strings.Join(conds, " ; "),
				"the line write is gated by `"+bad+"` (activity predicate present: "+fmt.Sprint(hasActive)+"): drops while writing is active (e.g. paused) are not logged, or drops while inactive are")
		}
	}
	// labels: every nil-result path of the exported setter and of the internal one passes exactly one line write
	inner := c20LabelWriter(p)
	outer := p.Func("", wsT, "SetExperimentStateLabel")
	if inner == nil || outer == nil {
		r.Unk("C20.R2", "state label setters", "-", "anchor not found")
		return
	}
	r.Fn(FuncName(inner))
	r.Fn(FuncName(outer))
	isLine := func(in ssa.Instruction) bool {
		if !methodCallOn(in, "experimentStateFile", "WriteString") {
			return false
		}
		_, isC := CallOf(in).Args[1].(*ssa.Const)
		return !isC
	}
	for _, e := range CountEvents(inner, func(in ssa.Instruction) CountSet {
		if isLine(in) {
			return C1
		}
		return C0
	}) {
		if e.Kind != ExitReturn {
			continue
		}
		if isNilErrReturn(e.Instr) {
			r.Check(e.Count == C1, "C20.R2", "state label: a successful internal set writes exactly one line", p.InstrPos(e.Instr), "count = 1", "a nil-result exit of the label writer is reached with "+e.Count.String()+" line writes")
		}
	}
	for _, e := range CountEvents(outer, func(in ssa.Instruction) CountSet {
		if call, ok := in.(*ssa.Call); ok && call.Call.StaticCallee() == inner {
			return C1
		}
		return C0
	}) {
		if e.Kind != ExitReturn {
			continue
		}
		ret := e.Instr.(*ssa.Return)
		if ret.Block().Comment == "recover" {
			continue
		}
		res := returnedValue(ret, 0)
		switch x := res.(type) {
		case *ssa.Const:
			if x.Value == nil {
				r.Check(e.Count == C1, "C20.R2", "state label: an accepted request has written its line", p.InstrPos(e.Instr), "count = 1", "the exported setter returns success on a path that does not write the label line (an accepted request leaves no trace)")
			}
		case *ssa.Call:
			if x.Call.StaticCallee() == inner {
				r.Check(e.Count == C1, "C20.R2", "state label: the request's result is the line writer's result", p.InstrPos(e.Instr), "returns setExperimentStateLabel(...)", "inner call count "+e.Count.String())
			}
		case *ssa.Phi:
			for i, ed := range x.Edges {
				if c, ok := ed.(*ssa.Const); ok && c.Value == nil {
					pred := x.Block().Preds[i]
					through := false
					Instrs(outer, func(in ssa.Instruction) {
						if call, ok := in.(*ssa.Call); ok && call.Call.StaticCallee() == inner && (call.Block() == pred || call.Block().Dominates(pred)) {
							through = true
						}
					})
					r.Check(through, "C20.R2", "state label: an accepted request has written its line", p.InstrPos(e.Instr), "nil result only after the line writer", "the exported setter yields a nil result on a path that bypasses the label line write (an accepted request leaves no trace)")
				}
			}
		}
	}
}

func c20Who(p *Prog, r *Report, sfs []sideFile) {
	handles := map[string]bool{}
	for _, sf := range sfs {
		handles[sf.file] = true
		if sf.writer != "" {
			handles[sf.writer] = true
		}
	}
	users := map[string][]string{}
	userFns := map[string]*ssa.Function{}
	for _, fn := range p.LibFuncs() {
		Instrs(fn, func(in ssa.Instruction) {
			var addr ssa.Value
			switch x := in.(type) {
			case *ssa.Store:
				addr = x.Addr
			case *ssa.UnOp:
				if x.Op == token.MUL {
					addr = x.X
				}
			}
			if addr == nil {
				return
			}
			if o, f, _, ok := FieldOf(addr); ok && o == wsT && handles[f] {
				name := FuncName(fn)
				userFns[name] = fn
				found := false
				for _, u := range users[f] {
					if u == name {
						found = true
					}
				}
				if !found {
					users[f] = append(users[f], name)
				}
			}
		})
	}
	var hs []string
	for h := range handles {
		hs = append(hs, h)
	}
	sort.Strings(hs)
	for _, h := range hs {
		bad := ""
		for _, u := range users[h] {
			isWS := strings.HasPrefix(u, "(*"+wsT+").")
			// an unexported function of the package that works on the writing state it is given
			if uf := userFns[u]; uf != nil && !isWS && uf.Signature.Recv() == nil && len(uf.Params) > 0 && typeName(uf.Params[0].Type()) == wsT && uf.Object() != nil && !uf.Object().Exported() {
				isWS = true
			}
			isHandler := strings.HasPrefix(u, "(*AnySource).Handle")
			// an unexported helper whose only callers are the writing state's methods and the block handlers
			if uf := userFns[u]; uf != nil && !isWS && !isHandler && uf.Object() != nil && !uf.Object().Exported() {
				sites, complete := p.staticCallSites(uf)
				if complete && len(sites) > 0 {
					all := true
					for _, site := range sites {
						caller := site.Parent()
						for caller.Parent() != nil {
							caller = caller.Parent()
						}
						cn := FuncName(caller)
						if !strings.HasPrefix(cn, "(*"+wsT+").") && !strings.HasPrefix(cn, "(*AnySource).Handle") {
							all = false
						}
					}
					isHandler = all
				}
			}
			if !isWS && !isHandler {
				bad = u
			}
		}
		sort.Strings(users[h])
		r.Check(bad == "", "C20.R3", "handle "+h+" is touched only by the writing state and the block handlers", "-", strings.Join(users[h], ", "), "the handle is also accessed in "+bad)
	}
}

// ---- additions after the second round of seeded changes ---------------------------------------

// c20More: (a) each block handler is called exactly once per block, outside any loop, by the
// block processing function; (b) a side file that has a buffered writer is written only through
// that writer (a direct write to the *os.File overtakes what is still buffered); (c) in the
// write-control function every successful return of the UNPAUSE arm has passed the test for a
// label, and so (R2) its label write.
func c20More(p *Prog, r *Report, sfs []sideFile) {
	ps := p.Func("", "AnySource", "ProcessSegments")
	if ps == nil {
		r.Unk("C20.anchor", "AnySource.ProcessSegments", "-", "anchor not found")
		return
	}
	r.Fn(FuncName(ps))
	for _, h := range []string{"HandleDataDrop", "HandleExternalTriggers"} {
		var sites []ssa.Instruction
		Instrs(ps, func(in ssa.Instruction) {
			if cc := CallOf(in); cc != nil && cc.StaticCallee() != nil && cc.StaticCallee().Name() == h {
				sites = append(sites, in)
			}
		})
		ok := len(sites) == 1 && !InLoop(sites[0])
		pos := p.Pos(ps.Pos())
		if len(sites) > 0 {
			pos = p.InstrPos(sites[0])
		}
		r.Check(ok, "C20.R2", "block processing calls "+h+" exactly once per block", pos, "one call site, not in a loop",
			fmt.Sprintf("%d call site(s), in a loop: %v — the handler writes one entry per call, so one event of a block is logged several times (or, with no call, never)", len(sites), len(sites) > 0 && InLoop(sites[0])))
	}
	// (b)
	buffered := map[string]string{}
	for _, sf := range sfs {
		if sf.writer != "" {
			buffered[sf.file] = sf.writer
		}
	}
	for _, fn := range p.LibFuncs() {
		Instrs(fn, func(in ssa.Instruction) {
			cc := CallOf(in)
			if cc == nil || cc.StaticCallee() == nil || len(cc.Args) == 0 {
				return
			}
			name := cc.StaticCallee().Name()
			if name != "Write" && name != "WriteString" && name != "WriteAt" && name != "ReadFrom" {
				return
			}
			if cc.StaticCallee().Signature.Recv() == nil || !strings.HasSuffix(cc.StaticCallee().Signature.Recv().Type().String(), "os.File") {
				return
			}
			o, f, _, ok := FieldOf(cc.Args[0])
			if !ok || o != wsT || buffered[f] == "" {
				return
			}
			r.Fn(FuncName(fn))
			r.Bad("C20.R3", "side file "+f+" is written only through its buffered writer ("+FuncName(fn)+")", p.InstrPos(in),
				"a direct "+name+" on the file while "+buffered[f]+" may still hold earlier bytes: the direct write reaches the file first, so events (and the header) are out of order")
		})
	}
	for f, w := range buffered {
		r.OK("C20.R3", "side file "+f+" is written only through its buffered writer", "-", "no direct write on the file; "+w+" is the only data path (violations are listed per function)")
	}
	// (c)
	wc := p.Func("", "AnySource", "WriteControl")
	if wc == nil {
		r.Unk("C20.anchor", "AnySource.WriteControl", "-", "anchor not found")
		return
	}
	r.Fn(FuncName(wc))
	var arm *ssa.BasicBlock
	Instrs(wc, func(in ssa.Instruction) {
		c, ok := in.(*ssa.Call)
		if !ok || !IsCallTo(in, "strings.HasPrefix") {
			return
		}
		if k, isC := c.Call.Args[1].(*ssa.Const); !isC || k.Value == nil || !strings.Contains(k.Value.ExactString(), "UNPAUSE") {
			return
		}
		for _, ref := range *c.Referrers() {
			if iff, isIf := ref.(*ssa.If); isIf {
				arm = iff.Block().Succs[0]
			}
		}
	})
	isLabelTest := func(in ssa.Instruction) bool { return false }
	if arm == nil {
		// the request may be classified elsewhere (a tagged switch on a request kind): the arm is
		// then known by what it does: it clears the paused flag of the writing state.  That store
		// must not be reachable without passing the test of the request's length.
		var unpause ssa.Instruction
		for _, st := range StoresTo(wc, wsT, "Paused") {
			if c, isC := st.Val.(*ssa.Const); isC && c.Value != nil && c.Value.ExactString() == "false" {
				unpause = st
			}
		}
		if unpause == nil {
			r.Unk("C20.R2", "UNPAUSE with a label: the label test precedes every successful return", p.Pos(wc.Pos()), "the UNPAUSE arm of the write-control function was not found (no prefix test for UNPAUSE and no store clearing the paused flag)")
			return
		}
		lenTest := c20IsLabelTest
		esc := ReachAvoiding(wc, nil, lenTest, func(in ssa.Instruction) bool { return in == unpause })
		r.Check(len(esc) == 0, "C20.R2", "UNPAUSE with a label: the label test precedes every successful return", p.InstrPos(unpause), "the paused flag is cleared only after the test of the request's length",
			"the UNPAUSE arm can report success without having looked for a label: an accepted `UNPAUSE <label>` then leaves no line in the experiment-state file")
		return
	}
	isLabelTest = c20IsLabelTest
	// walk from the first instruction of the arm
	esc := reachFromBlock(arm, isLabelTest, func(in ssa.Instruction) bool {
		ret, ok := in.(*ssa.Return)
		if !ok || len(ret.Results) == 0 {
			return false
		}
		c, isC := returnedValue(ret, len(ret.Results)-1).(*ssa.Const)
		return isC && c.Value == nil
	})
	pos := p.Pos(wc.Pos())
	if len(esc) > 0 {
		pos = p.InstrPos(esc[0])
	}
	r.Check(len(esc) == 0, "C20.R2", "UNPAUSE with a label: the label test precedes every successful return", pos, "every nil return of the UNPAUSE arm has passed the test of the request's length",
		"the UNPAUSE arm can report success without having looked for a label: an accepted `UNPAUSE <label>` then leaves no line in the experiment-state file")
	// the label that is recorded is the client's text: a part of the request as it came, not of
	// a copy that was changed for recognising the keyword
	if outer := p.Func("", wsT, "SetExperimentStateLabel"); outer != nil {
		Instrs(wc, func(in ssa.Instruction) {
			cc := CallOf(in)
			if cc == nil || len(cc.Args) == 0 {
				return
			}
			callee := cc.StaticCallee()
			if callee == nil || !(callee == outer || callee.Name() == "SetExperimentStateLabel") {
				return
			}
			label := cc.Args[len(cc.Args)-1]
			key := "UNPAUSE with a label: the label recorded is the text the client sent"
			from, altered := c20ReqDeriv(label, 0)
			switch {
			case from && altered == "":
				r.OK("C20.R2", key, p.InstrPos(in), "a part of the request, unchanged")
			case from:
				r.Bad("C20.R2", key, p.InstrPos(in), "the label handed to the experiment-state file is cut out of a copy of the request that went through "+altered+": the line written (and the state reported to clients) carries a changed text, not the label the client asked for")
			default:
				r.Unk("C20.R2", key, p.InstrPos(in), "the label could not be traced to the request text")
			}
		})
	}
}

// c20ReqDeriv: v is text taken from the client's request (the Request field of the write-control
// configuration): by slicing, trimming or cutting a prefix (the content is the client's), or
// through a call that changes the text itself (altered names it: strings.ToUpper, ...).
func c20ReqDeriv(v ssa.Value, depth int) (from bool, altered string) {
	if depth > 8 || v == nil {
		return false, ""
	}
	switch x := v.(type) {
	case *ssa.UnOp:
		if x.Op != token.MUL {
			return false, ""
		}
		if _, f, _, ok := FieldOf(x); ok && f == "Request" {
			return true, ""
		}
		if rv := resolveCell(x); rv != nil && rv != ssa.Value(x) {
			return c20ReqDeriv(rv, depth+1)
		}
	case *ssa.Slice:
		return c20ReqDeriv(x.X, depth+1)
	case *ssa.Extract:
		if x.Index == 0 {
			return c20ReqDeriv(x.Tuple, depth+1)
		}
	case *ssa.Phi:
		all, alt := true, ""
		for _, e := range x.Edges {
			f, a := c20ReqDeriv(e, depth+1)
			if !f {
				all = false
			}
			if a != "" {
				alt = a
			}
		}
		return all && len(x.Edges) > 0, alt
	case *ssa.Call:
		name := CalleeName(&x.Call)
		if !strings.HasPrefix(name, "strings.") || len(x.Call.Args) == 0 {
			return false, ""
		}
		f, a := c20ReqDeriv(x.Call.Args[0], depth+1)
		switch strings.TrimPrefix(name, "strings.") {
		case "TrimPrefix", "CutPrefix", "TrimSuffix", "CutSuffix", "TrimSpace", "TrimLeft", "TrimRight", "Trim", "Clone":
			return f, a
		}
		if f && a == "" {
			a = name
		}
		return f, a
	}
	return false, ""
}

// c20IsLabelTest: a branch on whether the request goes on after its keyword: a comparison of the
// length of the request (or of a part of it), or of a part of it with the empty string.
func c20IsLabelTest(in ssa.Instruction) bool {
	iff, ok := in.(*ssa.If)
	if !ok {
		return false
	}
	bo, ok := iff.Cond.(*ssa.BinOp)
	if !ok {
		return false
	}
	for _, side := range []ssa.Value{bo.X, bo.Y} {
		if c, isCall := side.(*ssa.Call); isCall {
			if b, isB := c.Call.Value.(*ssa.Builtin); isB && b.Name() == "len" {
				if f, _ := c20ReqDeriv(c.Call.Args[0], 0); f {
					return true
				}
			}
		}
		if _, isStr := side.Type().Underlying().(*types.Basic); isStr {
			if _, isSl := side.(*ssa.Slice); isSl || func() bool { _, e := side.(*ssa.Extract); _, c := side.(*ssa.Call); return e || c }() {
				if f, _ := c20ReqDeriv(side, 0); f {
					return true
				}
			}
		}
	}
	return false
}

// c20LabelWriter: the function that records an experiment-state label (it stores the label field
// of the writing state and writes the line): a method of the writing state or a function taking
// it, whatever its name; the exported, locking wrapper is the one that calls it.
var c20LabelWriterMemo = map[*Prog]*ssa.Function{}

func c20LabelWriter(p *Prog) *ssa.Function {
	if f, ok := c20LabelWriterMemo[p]; ok {
		return f
	}
	var best *ssa.Function
	for _, fn := range p.LibFuncs() {
		if fnPkg(fn) != p.Root.Pkg || len(fn.Params) == 0 || typeName(fn.Params[0].Type()) != wsT {
			continue
		}
		if len(StoresTo(fn, wsT, "ExperimentStateLabel")) == 0 {
			continue
		}
		// the one that does not take the lock itself
		locks := false
		Instrs(fn, func(in ssa.Instruction) {
			if cc := CallOf(in); cc != nil && strings.HasSuffix(CalleeName(cc), ").Lock") {
				locks = true
			}
		})
		// Stop also clears the label: it is not the writer (it stores the empty string only)
		onlyEmpty := true
		for _, st := range StoresTo(fn, wsT, "ExperimentStateLabel") {
			if c, isC := st.Val.(*ssa.Const); !isC || c.Value == nil || c.Value.ExactString() != `""` {
				onlyEmpty = false
			}
		}
		if !locks && !onlyEmpty {
			best = fn
		}
	}
	c20LabelWriterMemo[p] = best
	return best
}

// ---- R4: text written to the side files is never used as a format string ----------------------

// c20R4: the lines of the run's side files carry text chosen by the client (the experiment-state
// label).  Every printf-style call whose destination is one of the side files (the file itself or
// its buffered writer) has a constant format string; a line put together beforehand and then used
// as the format (`fmt.Fprintf(f, line+"\n")`) has every '%' of the label taken as a verb, so the
// line is mangled and the text meant for it spills into the next one.
func c20R4(p *Prog, r *Report) {
	n := 0
	for _, fn := range p.LibFuncs() {
		if fnPkg(fn) != p.Root.Pkg {
			continue
		}
		Instrs(fn, func(in ssa.Instruction) {
			cc := CallOf(in)
			if cc == nil || CalleeName(cc) != "fmt.Fprintf" || len(cc.Args) < 2 {
				return
			}
			w := cc.Args[0]
			if mi, ok := w.(*ssa.MakeInterface); ok {
				w = mi.X
			}
			o, f, _, okf := FieldOf(w)
			if !okf || o != wsT {
				return
			}
			n++
			r.Fn(FuncName(fn))
			_, isConst := cc.Args[1].(*ssa.Const)
			r.Check(isConst, "C20.R4", fmt.Sprintf("format of the Fprintf to %s in %s", f, FuncName(fn)), p.InstrPos(in), "constant format string",
				"the text written to the side file is used as the format string: a '%' in it (the client's label: `beam at 50%`) is read as a verb, the line comes out mangled and stray %!-text is glued to what follows, so the file no longer holds one well-formed line per accepted request")
		})
	}
	if n == 0 {
		r.OK("C20.R4", "side-file text is not used as a format string", "-", "no Fprintf to a side file of the writing state (lines are written with WriteString / Write)")
	}
}
