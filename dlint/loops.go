package main

import (
	"go/token"

	"golang.org/x/tools/go/ssa"
)

// RangeLoop describes a `for i, x := range <slice>` loop in go/ssa's rotated form:
//
//	header: idx = phi [-1, next]; next = idx + 1; if next < len(over) goto body else done
type RangeLoop struct {
	Header *ssa.BasicBlock
	Body   *ssa.BasicBlock
	Done   *ssa.BasicBlock
	Over   ssa.Value // the slice/array value ranged over
	Idx    ssa.Value // the index value used inside the body (next)
	Phi    *ssa.Phi
}

// RangeLoops finds the range-over-slice loops of fn.
func RangeLoops(fn *ssa.Function) []*RangeLoop {
	var out []*RangeLoop
	for _, b := range fn.Blocks {
		if len(b.Instrs) < 3 {
			continue
		}
		iff, ok := b.Instrs[len(b.Instrs)-1].(*ssa.If)
		if !ok {
			continue
		}
		cmp, ok := iff.Cond.(*ssa.BinOp)
		if !ok || cmp.Op != token.LSS {
			continue
		}
		// the counting form `for i := 0; i < len(s); i++` (also with the length hoisted into a
		// local): header: i = phi [0, i+1]; if i < len(s) goto body else done
		if cphi, isPhi := cmp.X.(*ssa.Phi); isPhi && cphi.Block() == b && len(cphi.Edges) == 2 {
			zero, step := false, false
			for i, e := range cphi.Edges {
				if b.Dominates(b.Preds[i]) {
					if inc, ok := e.(*ssa.BinOp); ok && inc.Op == token.ADD && inc.X == ssa.Value(cphi) {
						if one, isC := constInt(inc.Y); isC && one == 1 {
							step = true
						}
					}
				} else if v, isC := constInt(e); isC && v == 0 {
					zero = true
				}
			}
			if ln, ok := cmp.Y.(*ssa.Call); ok && zero && step {
				if bi, ok := ln.Call.Value.(*ssa.Builtin); ok && bi.Name() == "len" {
					out = append(out, &RangeLoop{Header: b, Body: b.Succs[0], Done: b.Succs[1], Over: ln.Call.Args[0], Idx: cphi, Phi: cphi})
				}
			}
			continue
		}
		next, ok := cmp.X.(*ssa.BinOp)
		if !ok || next.Op != token.ADD {
			continue
		}
		phi, ok := next.X.(*ssa.Phi)
		if !ok || phi.Block() != b {
			continue
		}
		if one, isC := constInt(next.Y); !isC || one != 1 {
			continue
		}
		seeded := false
		for _, e := range phi.Edges {
			if v, isC := constInt(e); isC && v == -1 {
				seeded = true
			}
		}
		if !seeded {
			continue
		}
		ln, ok := cmp.Y.(*ssa.Call)
		if !ok {
			continue
		}
		bi, ok := ln.Call.Value.(*ssa.Builtin)
		if !ok || bi.Name() != "len" {
			continue
		}
		out = append(out, &RangeLoop{Header: b, Body: b.Succs[0], Done: b.Succs[1], Over: ln.Call.Args[0], Idx: next, Phi: phi})
	}
	return out
}

// Contains reports whether block x belongs to the loop (header or dominated by the body entry).
func (l *RangeLoop) Contains(x *ssa.BasicBlock) bool {
	return x == l.Header || l.Body.Dominates(x)
}

// OverField returns the struct field the ranged slice was loaded from ("" if not a field).
func (l *RangeLoop) OverField() (owner, field string) {
	o, f, _, ok := FieldOf(l.Over)
	if !ok {
		return "", ""
	}
	return o, f
}

// ElemRoot: is v (or the root of its field path) the current element of loop l?
func (l *RangeLoop) IsElem(v ssa.Value) bool {
	root, _ := fieldPath(v)
	for i := 0; i < 3; i++ {
		switch x := root.(type) {
		case *ssa.UnOp:
			if x.Op == token.MUL {
				if ia, ok := x.X.(*ssa.IndexAddr); ok && ia.X == l.Over && ia.Index == l.Idx {
					return true
				}
			}
		case *ssa.IndexAddr:
			if x.X == l.Over && x.Index == l.Idx {
				return true
			}
		}
		// element may have been loaded and then field-addressed again
		r2, _ := fieldPath(root)
		if r2 == root {
			break
		}
		root = r2
	}
	return false
}

// EveryIteration: does block x execute on every iteration of the loop (dominates all back edges)?
func (l *RangeLoop) EveryIteration(x *ssa.BasicBlock) bool {
	if !l.Contains(x) {
		return false
	}
	for _, pred := range l.Header.Preds {
		if l.Contains(pred) && pred != l.Header {
			if !x.Dominates(pred) {
				return false
			}
		}
	}
	return true
}

// LoopContaining returns the innermost range loop of fn that contains the instruction.
func LoopContaining(loops []*RangeLoop, in ssa.Instruction) *RangeLoop {
	var best *RangeLoop
	for _, l := range loops {
		if l.Contains(in.Block()) && in.Block() != l.Header {
			if best == nil || best.Contains(l.Header) {
				best = l
			}
		}
	}
	return best
}

// controllingIfs lists the (If, branch) pairs that the block is control-dependent on, by
// walking the dominator tree: an If at the end of dominator d controls b when exactly one
// successor of d dominates b.
type ctrl struct {
	If     *ssa.If
	Branch int // 0 = true successor, 1 = false successor
}

func controllingIfs(b *ssa.BasicBlock) []ctrl {
	var out []ctrl
	for d := b.Idom(); d != nil; d = d.Idom() {
		iff, ok := d.Instrs[len(d.Instrs)-1].(*ssa.If)
		if !ok {
			continue
		}
		t, f := d.Succs[0], d.Succs[1]
		// a successor that also dominates d itself is a loop header reached by a back edge, not a branch arm
		td := (t == b || t.Dominates(b)) && !t.Dominates(d)
		fd := (f == b || f.Dominates(b)) && !f.Dominates(d)
		// a successor only "owns" b if it is not also reachable by the other edge (single predecessor)
		if td && !fd && len(t.Preds) == 1 {
			out = append(out, ctrl{iff, 0})
		} else if fd && !td && len(f.Preds) == 1 {
			out = append(out, ctrl{iff, 1})
		}
	}
	return out
}
