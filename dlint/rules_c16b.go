package main

// C16.R6 / C16.R7: what start-up does to the settings it has just read back.
//
// R6  A value decoded from the saved configuration may be replaced by a default only when it is
//     missing or makes no sense.  Every store into the decoded status record after the decode
//     must sit under a test of the very field it replaces (or be `max`/`min` of it, which is such a
//     test).  For the fields that a request handler also sets (the record lengths), "makes no sense"
//     is given by the setter: the replace condition must imply one of the setter's rejection
//     tests, otherwise start-up rewrites values the setter accepted and saved.
// R7  A loop that walks a decoded list (the saved trigger groups) is left only when the list is
//     exhausted: an early exit abandons the later entries, which then silently get defaults.

import (
	"fmt"
	"go/token"
	"go/types"
	"sort"
	"strings"

	"golang.org/x/tools/go/ssa"
)

type linExpr struct {
	coef map[string]int64
	k    int64
}

func (a linExpr) sub(b linExpr) linExpr {
	out := linExpr{coef: map[string]int64{}, k: a.k - b.k}
	for s, c := range a.coef {
		out.coef[s] += c
	}
	for s, c := range b.coef {
		out.coef[s] -= c
	}
	for s, c := range out.coef {
		if c == 0 {
			delete(out.coef, s)
		}
	}
	return out
}

func (a linExpr) sameForm(b linExpr) bool {
	if len(a.coef) != len(b.coef) {
		return false
	}
	for s, c := range a.coef {
		if b.coef[s] != c {
			return false
		}
	}
	return true
}

func (a linExpr) String() string {
	var syms []string
	for s := range a.coef {
		syms = append(syms, s)
	}
	sort.Strings(syms)
	var parts []string
	for _, s := range syms {
		parts = append(parts, fmt.Sprintf("%+d*%s", a.coef[s], s))
	}
	return strings.Join(parts, " ") + fmt.Sprintf(" <= %d", a.k)
}

// linOf: v as an integer linear expression over the symbols symOf names.
func linOf(v ssa.Value, symOf func(ssa.Value) (string, bool)) (linExpr, bool) {
	v = stripConv(v)
	if s, ok := symOf(v); ok {
		return linExpr{coef: map[string]int64{s: 1}}, true
	}
	if n, ok := constInt(v); ok {
		return linExpr{coef: map[string]int64{}, k: n}, true
	}
	bo, ok := v.(*ssa.BinOp)
	if !ok {
		return linExpr{}, false
	}
	a, okA := linOf(bo.X, symOf)
	b, okB := linOf(bo.Y, symOf)
	if !okA || !okB {
		return linExpr{}, false
	}
	switch bo.Op {
	case token.ADD:
		return a.sub(linExpr{coef: map[string]int64{}}.sub(b)), true
	case token.SUB:
		return a.sub(b), true
	case token.MUL:
		if len(a.coef) == 0 {
			a, b = b, a
		}
		if len(b.coef) != 0 {
			return linExpr{}, false
		}
		out := linExpr{coef: map[string]int64{}, k: a.k * b.k}
		for s, c := range a.coef {
			out.coef[s] = c * b.k
		}
		return out, true
	}
	return linExpr{}, false
}

// cmpNorm: the comparison (or its negation when !holds) as  Σ coef·sym <= k  over integers.
func cmpNorm(cond ssa.Value, holds bool, symOf func(ssa.Value) (string, bool)) (linExpr, bool) {
	if u, ok := cond.(*ssa.UnOp); ok && u.Op == token.NOT {
		return cmpNorm(u.X, !holds, symOf)
	}
	bo, ok := cond.(*ssa.BinOp)
	if !ok {
		return linExpr{}, false
	}
	a, okA := linOf(bo.X, symOf)
	b, okB := linOf(bo.Y, symOf)
	if !okA || !okB {
		return linExpr{}, false
	}
	op := bo.Op
	if !holds {
		switch op {
		case token.LSS:
			op = token.GEQ
		case token.LEQ:
			op = token.GTR
		case token.GTR:
			op = token.LEQ
		case token.GEQ:
			op = token.LSS
		default:
			return linExpr{}, false
		}
	}
	var d linExpr
	switch op {
	case token.LSS: // a < b : a-b <= -1
		d = a.sub(b)
		d.k = -d.k - 1
	case token.LEQ:
		d = a.sub(b)
		d.k = -d.k
	case token.GTR: // a > b : b-a <= -1
		d = b.sub(a)
		d.k = -d.k - 1
	case token.GEQ:
		d = b.sub(a)
		d.k = -d.k
	default:
		return linExpr{}, false
	}
	return d, true
}

func isErrorExit(b *ssa.BasicBlock) bool {
	for i := 0; i < 4 && b != nil; i++ {
		switch t := b.Instrs[len(b.Instrs)-1].(type) {
		case *ssa.Return:
			n := len(t.Results)
			return n > 0 && isErrorType(t.Results[n-1].Type()) && definitelyNonNilError(t.Results[n-1])
		case *ssa.Jump:
			b = b.Succs[0]
		default:
			return false
		}
	}
	return false
}

func c16R6R7(p *Prog, r *Report) {
	statusT := "ServerStatus"
	fieldOfStatus := func(addr ssa.Value) (string, bool) {
		fa, ok := addr.(*ssa.FieldAddr)
		if !ok || typeName(fa.X.Type()) != statusT {
			return "", false
		}
		st := derefStruct(fa.X.Type())
		if st == nil {
			return "", false
		}
		return st.Field(fa.Field).Name(), true
	}
	loadOfStatus := func(v ssa.Value) (string, bool) {
		if ld, ok := v.(*ssa.UnOp); ok && ld.Op == token.MUL {
			return fieldOfStatus(ld.X)
		}
		return "", false
	}
	// ---- links: status field <-> parameter of the setter that validates it
	type link struct {
		setter *ssa.Function
		param  string
	}
	links := map[string]link{}
	for _, fn := range p.LibFuncs() {
		c := NewPolyCtx(fn)
		var stores []*ssa.Store
		Instrs(fn, func(in ssa.Instruction) {
			if st, ok := in.(*ssa.Store); ok {
				if _, isF := fieldOfStatus(st.Addr); isF {
					stores = append(stores, st)
				}
			}
		})
		if len(stores) == 0 {
			continue
		}
		Instrs(fn, func(in ssa.Instruction) {
			cc := CallOf(in)
			if cc == nil || !cc.IsInvoke() {
				return
			}
			impl := p.Func("", "AnySource", cc.Method.Name())
			if impl == nil || len(impl.Params) != len(cc.Args)+1 {
				return
			}
			for j, a := range cc.Args {
				if !isIntLike(a.Type()) {
					continue
				}
				for _, st := range stores {
					f, _ := fieldOfStatus(st.Addr)
					if _, isC := st.Val.(*ssa.Const); isC {
						continue
					}
					if st.Val == a || c.Of(st.Val).Equal(c.Of(a)) {
						links[f] = link{impl, impl.Params[j+1].Name()}
					}
				}
			}
		})
	}
	rejections := map[*ssa.Function][]linExpr{}
	rejOf := func(setter *ssa.Function) []linExpr {
		if rj, ok := rejections[setter]; ok {
			return rj
		}
		symOf := func(v ssa.Value) (string, bool) {
			if prm, ok := v.(*ssa.Parameter); ok && prm.Parent() == setter {
				return prm.Name(), true
			}
			return "", false
		}
		var out []linExpr
		// leadsToError: entering sc from `from` ends in an error return, through jumps and
		// through tests that this way in already decides (a flag built with && / ||)
		leadsToError := func(from, sc *ssa.BasicBlock) bool {
			for i := 0; i < 6; i++ {
				if isErrorExit(sc) {
					return true
				}
				iff, ok := sc.Instrs[len(sc.Instrs)-1].(*ssa.If)
				if !ok {
					return false
				}
				k := decidedOnEdge(iff.Cond, sc, from)
				if k < 0 {
					return false
				}
				from, sc = sc, sc.Succs[k]
			}
			return false
		}
		Instrs(setter, func(in ssa.Instruction) {
			iff, ok := in.(*ssa.If)
			if !ok {
				return
			}
			b := iff.Block()
			// the test itself, or - for a flag that is a phi - the comparison that arrives on one of its edges
			type cand struct {
				cond ssa.Value
				neg  bool
				from *ssa.BasicBlock
			}
			var cands []cand
			base, neg := iff.Cond, false
			for {
				u, isU := base.(*ssa.UnOp)
				if !isU || u.Op != token.NOT {
					break
				}
				base, neg = u.X, !neg
			}
			if ph, isPhi := base.(*ssa.Phi); isPhi && ph.Block() == b {
				for i, e := range ph.Edges {
					if _, isC := e.(*ssa.Const); !isC {
						cands = append(cands, cand{e, neg, b.Preds[i]})
					}
				}
			} else {
				cands = append(cands, cand{base, neg, nil})
			}
			for _, cd := range cands {
				for k, sc := range b.Succs {
					if leadsToError(b, sc) {
						if e, ok := cmpNorm(cd.cond, (k == 0) != cd.neg, symOf); ok {
							out = append(out, e)
						}
					}
				}
			}
		})
		rejections[setter] = out
		return out
	}
	// ---- restore sites
	for _, fn := range p.LibFuncs() {
		Instrs(fn, func(in ssa.Instruction) {
			if !IsCallTo(in, viperPkg+".UnmarshalKey") {
				return
			}
			cc := CallOf(in)
			key, _ := constString(cc.Args[0])
			dest := cc.Args[1]
			if mi, ok := dest.(*ssa.MakeInterface); ok {
				dest = mi.X
			}
			r.Fn(FuncName(fn))
			// R7: loops over a decoded list
			if al, ok := dest.(*ssa.Alloc); ok {
				for _, l := range RangeLoops(fn) {
					ld, ok := l.Over.(*ssa.UnOp)
					if !ok || ld.X != ssa.Value(al) {
						continue
					}
					bad := ""
					for _, b := range fn.Blocks {
						if !l.Contains(b) || b == l.Header {
							continue
						}
						for _, sc := range b.Succs {
							if l.Contains(sc) || sc == l.Header {
								continue
							}
							if _, isPanic := sc.Instrs[len(sc.Instrs)-1].(*ssa.Panic); isPanic {
								continue
							}
							bad = p.InstrPos(b.Instrs[len(b.Instrs)-1])
						}
						if _, isRet := b.Instrs[len(b.Instrs)-1].(*ssa.Return); isRet {
							bad = p.InstrPos(b.Instrs[len(b.Instrs)-1])
						}
					}
					r.Check(bad == "", "C16.R7", fmt.Sprintf("the loop over the saved %q entries in %s visits every entry", key, FuncName(fn)), p.InstrPos(l.Header.Instrs[0]),
						"left only when the list is exhausted",
						"the loop is left early at "+bad+": the entries after that point are not restored, and the channels they name silently get default settings instead of the saved ones")
				}
			}
			// R6: stores into the decoded status record
			if typeName(dest.Type()) != statusT {
				return
			}
			type site struct {
				st   *ssa.Store
				host *ssa.Function
			}
			var sites []site
			Instrs(fn, func(x ssa.Instruction) {
				if st, ok := x.(*ssa.Store); ok {
					if _, isF := fieldOfStatus(st.Addr); isF && InstrReaches(in, st) {
						sites = append(sites, site{st, fn})
					}
				}
				if c2 := CallOf(x); c2 != nil && !c2.IsInvoke() && InstrReaches(in, x) {
					h := c2.StaticCallee()
					if h == nil || !isModuleFn(h) || h.Blocks == nil {
						return
					}
					takes := false
					for _, a := range c2.Args {
						if _, isPtr := a.Type().(*types.Pointer); isPtr && typeName(a.Type()) == statusT {
							takes = true
						}
					}
					if !takes {
						return
					}
					for _, g := range DeepFuncs(h, 1) {
						Instrs(g, func(y ssa.Instruction) {
							if st, ok := y.(*ssa.Store); ok {
								if _, isF := fieldOfStatus(st.Addr); isF {
									sites = append(sites, site{st, g})
								}
							}
						})
					}
				}
			})
			for _, s := range sites {
				f, _ := fieldOfStatus(s.st.Addr)
				if f == "Running" {
					continue // run-time flag, not a setting: a restarted server is not running
				}
				r.Fn(FuncName(s.host))
				key := fmt.Sprintf("restored status.%s is replaced only when the saved value makes no sense", f)
				symOf := func(v ssa.Value) (string, bool) { return loadOfStatus(v) }
				// the replace condition: a controlling test that reads the field, or max/min of it
				var conds []linExpr
				undecidedCond := false
				for _, ct := range controllingIfs(s.st.Block()) {
					e, ok := cmpNorm(ct.If.Cond, ct.Branch == 0, symOf)
					if !ok {
						// a test that reads the field but is not a linear comparison
						reads := false
						var ops []*ssa.Value
						if ci, isI := ct.If.Cond.(ssa.Instruction); isI {
							ops = ci.Operands(nil)
						}
						for _, op := range ops {
							if g, isF := loadOfStatus(stripConv(*op)); isF && g == f {
								reads = true
							}
						}
						undecidedCond = undecidedCond || reads
						continue
					}
					if _, reads := e.coef[f]; reads {
						conds = append(conds, e)
					}
				}
				for _, kind := range []string{"max", "min"} {
					if args, isMM := minMaxArgs(s.st.Val, kind); isMM && len(args) == 2 {
						for k, a := range args {
							if g, isF := loadOfStatus(stripConv(a)); isF && g == f {
								old, _ := linOf(a, symOf)
								oth, okO := linOf(args[1-k], symOf)
								if okO {
									// max: replaced when old < other; min: when old > other
									d := old.sub(oth)
									if kind == "min" {
										d = oth.sub(old)
									}
									d.k = -d.k - 1
									conds = append(conds, d)
								} else {
									undecidedCond = true
								}
							}
						}
					}
				}
				switch {
				case len(conds) == 0 && undecidedCond:
					r.Unk("C16.R6", key, p.InstrPos(s.st), "the store is under a test of the field that is not a linear comparison")
					continue
				case len(conds) == 0:
					r.Bad("C16.R6", key, p.InstrPos(s.st), "the value read back from the configuration file is overwritten whatever it was: the setting saved by the previous run is not the one this run starts with")
					continue
				}
				lk, linked := links[f]
				if !linked {
					r.OK("C16.R6", key, p.InstrPos(s.st), "replaced only under a test of its own value: "+conds[0].String())
					continue
				}
				// rename to the setter's parameters
				okAll, implied := true, false
				for _, c := range conds {
					rc := linExpr{coef: map[string]int64{}, k: c.k}
					for sym, co := range c.coef {
						l2, ok := links[sym]
						if !ok || l2.setter != lk.setter {
							okAll = false
							continue
						}
						rc.coef[l2.param] = co
					}
					if !okAll {
						continue
					}
					for _, rj := range rejOf(lk.setter) {
						if rj.sameForm(rc) && rc.k <= rj.k {
							implied = true
						}
					}
				}
				switch {
				case implied:
					r.OK("C16.R6", key, p.InstrPos(s.st), "the replace condition implies a rejection test of "+FuncName(lk.setter)+": only values the setter would refuse are replaced")
				case !okAll:
					r.Unk("C16.R6", key, p.InstrPos(s.st), "the replace condition mentions fields that have no counterpart among the parameters of "+FuncName(lk.setter))
				default:
					r.Bad("C16.R6", key, p.InstrPos(s.st), fmt.Sprintf("the value is replaced when %s, which %s does not reject: a record length that was accepted and saved is changed at the next start-up, so reading the state back does not give the saved setting", conds[0].String(), FuncName(lk.setter)))
				}
			}
		})
	}
}

// C16.R8: the save step tolerates "there is no backup file yet" by classifying the error of the
// remove / link step with os.IsNotExist (and friends).  Those predicates do not unwrap: applied to
// an error that a helper re-made with fmt.Errorf("...%w", err) they are always false, the
// tolerance is lost and every save stops before the publishing rename.  For each call of
// os.IsNotExist / IsExist / IsPermission / IsTimeout in the library: the argument is not (the
// result of a module helper that returns) an fmt.Errorf with a %w verb.
func c16R8(p *Prog, r *Report) {
	wraps := func(v ssa.Value) (string, bool) {
		var check func(v ssa.Value, d int) (string, bool)
		check = func(v ssa.Value, d int) (string, bool) {
			call, ok := v.(*ssa.Call)
			if !ok || d > 2 {
				return "", false
			}
			if CalleeName(&call.Call) == "fmt.Errorf" && len(call.Call.Args) > 0 {
				if f, ok := constString(call.Call.Args[0]); ok && strings.Contains(f, "%w") {
					return p.InstrPos(call), true
				}
				return "", false
			}
			if g := call.Call.StaticCallee(); g != nil && isModuleFn(g) && g.Blocks != nil && !call.Call.IsInvoke() {
				where, found := "", false
				Instrs(g, func(in ssa.Instruction) {
					if ret, ok := in.(*ssa.Return); ok {
						for _, res := range ret.Results {
							if w, ok := check(res, d+1); ok {
								where, found = w, true
							}
						}
					}
				})
				return where, found
			}
			return "", false
		}
		return check(v, 0)
	}
	n := map[string]int{}
	for _, fn := range p.LibFuncs() {
		// the save step: the function that publishes the configuration by a rename
		renames := false
		Instrs(fn, func(in ssa.Instruction) {
			if IsCallTo(in, "os.Rename") {
				renames = true
			}
		})
		if !renames {
			continue
		}
		Instrs(fn, func(in ssa.Instruction) {
			cc := CallOf(in)
			if cc == nil || len(cc.Args) != 1 {
				return
			}
			name := CalleeName(cc)
			switch name {
			case "os.IsNotExist", "os.IsExist", "os.IsPermission", "os.IsTimeout":
			default:
				return
			}
			r.Fn(FuncName(fn))
			n[FuncName(fn)]++
			key := fmt.Sprintf("%s #%d in %s is applied to an error it can classify", name, n[FuncName(fn)], FuncName(fn))
			where, wrapped := wraps(cc.Args[0])
			r.Check(!wrapped, "C16.R8", key, p.InstrPos(in), "the error comes straight from the failed call (not re-made with %w)",
				name+" does not look inside a wrapped error, and this one was re-made with fmt.Errorf(\"...%w\") at "+where+": the test is always false, so the case it is meant to tolerate (for instance: no backup file yet) now aborts the step - here the save of the configuration stops before the new file is published (use errors.Is)")
		})
	}
}
