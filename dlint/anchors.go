package main

// Structural anchors shared by several rule sets: the RPC handler set, the
// request rendezvous (queueing function, request closures), goroutine starts.

import (
	"fmt"
	"go/token"
	"go/types"
	"sort"

	"golang.org/x/tools/go/ssa"
)

// ResolveFuncs follows an SSA value of function type back to the function(s) it
// can denote: MakeClosure, *ssa.Function, loads of local cells / captured cells,
// phis.  Unknown origins (parameters, fields) yield ok=false.
func ResolveFuncs(v ssa.Value) (fns []*ssa.Function, ok bool) {
	seen := map[ssa.Value]bool{}
	ok = true
	var walk func(v ssa.Value)
	walk = func(v ssa.Value) {
		if seen[v] {
			return
		}
		seen[v] = true
		switch x := v.(type) {
		case *ssa.Function:
			fns = append(fns, x)
		case *ssa.MakeClosure:
			fns = append(fns, x.Fn.(*ssa.Function))
		case *ssa.ChangeType:
			walk(x.X)
		case *ssa.Phi:
			for _, e := range x.Edges {
				walk(e)
			}
		case *ssa.Call:
			// a module helper that makes the function value (a closure factory): what it returns
			callee := x.Call.StaticCallee()
			if callee == nil || !isModuleFn(callee) || callee.Signature.Results().Len() != 1 {
				ok = false
				return
			}
			n := 0
			for _, b := range callee.Blocks {
				if ret, isRet := b.Instrs[len(b.Instrs)-1].(*ssa.Return); isRet && b != callee.Recover {
					walk(returnedValue(ret, 0))
					n++
				}
			}
			if n == 0 {
				ok = false
			}
		case *ssa.UnOp:
			if x.Op != token.MUL {
				ok = false
				return
			}
			cell := x.X
			switch c := cell.(type) {
			case *ssa.Alloc:
				found := false
				for _, ref := range *c.Referrers() {
					if st, isSt := ref.(*ssa.Store); isSt && st.Addr == c {
						walk(st.Val)
						found = true
					}
				}
				// the cell may also be written inside closures that capture it
				if !found {
					ok = false
				}
			case *ssa.FreeVar:
				fn := c.Parent()
				idx := -1
				for i, fv := range fn.FreeVars {
					if fv == c {
						idx = i
					}
				}
				par := fn.Parent()
				if par == nil || idx < 0 {
					ok = false
					return
				}
				bound := false
				Instrs(par, func(in ssa.Instruction) {
					mc, isMC := in.(*ssa.MakeClosure)
					if !isMC || mc.Fn != fn {
						return
					}
					b := mc.Bindings[idx]
					bound = true
					// b is the cell (Alloc or an outer FreeVar): load through it
					switch bc := b.(type) {
					case *ssa.Alloc:
						any := false
						for _, ref := range *bc.Referrers() {
							if st, isSt := ref.(*ssa.Store); isSt && st.Addr == bc {
								walk(st.Val)
								any = true
							}
						}
						if !any {
							ok = false
						}
					default:
						ok = false
					}
				})
				if !bound {
					ok = false
				}
			default:
				ok = false
			}
		default:
			ok = false
		}
	}
	walk(v)
	return
}

// Rendezvous describes the request hand-off between RPC handlers and the core loop.
type Rendezvous struct {
	Ctl        *types.Named           // SourceControl
	ReqField   string                 // chan func() field
	ResField   string                 // chan error field
	Queue      *ssa.Function          // runLaterIfActive: the entry point handlers use (outermost wrapper)
	Handoff    *ssa.Function          // the function that performs the send/receive on the channels (may equal Queue)
	Queues     map[*ssa.Function]bool // Handoff and its wrappers
	Closures   []*ssa.Function        // request closures (deduplicated, sorted by position)
	CallSites  []ssa.CallInstruction
	ClosureOf  map[*ssa.Function]ssa.CallInstruction // closure -> one call site
	Unresolved []ssa.CallInstruction                 // call sites whose argument could not be resolved
	Handlers   []*ssa.Function                       // RPC handlers (all registered receiver types)
}

func isChanOf(t types.Type, elem func(types.Type) bool) bool {
	c, ok := t.Underlying().(*types.Chan)
	return ok && elem(c.Elem())
}

func isFuncVoid(t types.Type) bool {
	s, ok := t.Underlying().(*types.Signature)
	return ok && s.Params().Len() == 0 && s.Results().Len() == 0
}

func isErrorType(t types.Type) bool {
	return types.Identical(t, types.Universe.Lookup("error").Type())
}

// FindRendezvous locates the anchors structurally.
func FindRendezvous(p *Prog) (*Rendezvous, error) {
	rv := &Rendezvous{ClosureOf: map[*ssa.Function]ssa.CallInstruction{}}
	// RPC receiver types: arguments of (*rpc.Server).Register
	recvTypes := map[*types.Named]bool{}
	for _, fn := range p.LibFuncs() {
		Instrs(fn, func(in ssa.Instruction) {
			if !IsCallTo(in, "(*net/rpc.Server).Register") {
				return
			}
			cc := CallOf(in)
			arg := cc.Args[len(cc.Args)-1]
			if mi, ok := arg.(*ssa.MakeInterface); ok {
				t := mi.X.Type()
				if pt, ok := t.(*types.Pointer); ok {
					t = pt.Elem()
				}
				if n, ok := t.(*types.Named); ok {
					recvTypes[n] = true
				}
			}
		})
	}
	if len(recvTypes) == 0 {
		return nil, fmt.Errorf("no rpc.Server.Register call found")
	}
	// the controller: the registered type with a chan func() and a chan error field
	for n := range recvTypes {
		st, ok := n.Underlying().(*types.Struct)
		if !ok {
			continue
		}
		var req, res string
		for i := 0; i < st.NumFields(); i++ {
			f := st.Field(i)
			if isChanOf(f.Type(), isFuncVoid) {
				req = f.Name()
			}
			if isChanOf(f.Type(), isErrorType) {
				res = f.Name()
			}
		}
		if req != "" && res != "" {
			rv.Ctl, rv.ReqField, rv.ResField = n, req, res
		}
	}
	if rv.Ctl == nil {
		return nil, fmt.Errorf("no registered RPC type has a chan func() and a chan error field")
	}
	// handlers: exported methods with the net/rpc shape
	for n := range recvTypes {
		ms := p.SSA.MethodSets.MethodSet(types.NewPointer(n))
		for i := 0; i < ms.Len(); i++ {
			sel := ms.At(i)
			if !sel.Obj().Exported() {
				continue
			}
			sig := sel.Type().(*types.Signature)
			if sig.Params().Len() != 2 || sig.Results().Len() != 1 || !isErrorType(sig.Results().At(0).Type()) {
				continue
			}
			if _, ok := sig.Params().At(1).Type().(*types.Pointer); !ok {
				continue
			}
			if fn := p.SSA.MethodValue(sel); fn != nil && fn.Blocks != nil {
				rv.Handlers = append(rv.Handlers, fn)
			}
		}
	}
	sort.Slice(rv.Handlers, func(i, j int) bool { return rv.Handlers[i].Pos() < rv.Handlers[j].Pos() })
	// queueing function: method of Ctl that sends its func() parameter on ReqField
	// (methods of the controller, or functions that take it as their first parameter)
	ofCtl := func(fn *ssa.Function) bool {
		if fn.Signature.Recv() != nil {
			return typeName(fn.Signature.Recv().Type()) == rv.Ctl.Obj().Name()
		}
		return len(fn.Params) > 0 && typeName(fn.Params[0].Type()) == rv.Ctl.Obj().Name() && fn.Parent() == nil
	}
	for _, fn := range p.LibFuncs() {
		if !ofCtl(fn) {
			continue
		}
		Instrs(fn, func(in ssa.Instruction) {
			var ch, x ssa.Value
			switch s := in.(type) {
			case *ssa.Send:
				ch, x = s.Chan, s.X
			case *ssa.Select:
				for _, st := range s.States {
					if st.Dir == types.SendOnly && chanFieldName(st.Chan) == rv.ReqField {
						ch, x = st.Chan, st.Send
					}
				}
			}
			if ch == nil || chanFieldName(ch) != rv.ReqField {
				return
			}
			if prm, ok := x.(*ssa.Parameter); ok && isFuncVoid(prm.Type()) {
				rv.Queue = fn
			}
		})
	}
	if rv.Queue == nil {
		return nil, fmt.Errorf("no method of %s sends its func() parameter on %s", rv.Ctl.Obj().Name(), rv.ReqField)
	}
	// The function found is the hand-off proper.  A wrapper is a method of the controller that
	// passes its own func() parameter on to the hand-off (or to another wrapper); the outermost
	// wrapper is the queueing entry point handlers use (it carries the active-flag test).
	rv.Handoff = rv.Queue
	rv.Queues = map[*ssa.Function]bool{rv.Handoff: true}
	for changed := true; changed; {
		changed = false
		for _, fn := range p.LibFuncs() {
			if rv.Queues[fn] || !ofCtl(fn) {
				continue
			}
			Instrs(fn, func(in ssa.Instruction) {
				ci, ok := in.(ssa.CallInstruction)
				if !ok || ci.Common().StaticCallee() == nil || !rv.Queues[ci.Common().StaticCallee()] {
					return
				}
				args := ci.Common().Args
				if prm, ok := args[len(args)-1].(*ssa.Parameter); ok && isFuncVoid(prm.Type()) && !rv.Queues[fn] {
					rv.Queues[fn] = true
					rv.Queue = fn
					changed = true
				}
			})
		}
	}
	// the entry point handlers use is the wrapper that tests a boolean field of the controller
	// (the active flag) before handing off; with several wrappers that one is the anchor
	var flagged []*ssa.Function
	for q := range rv.Queues {
		tests := false
		Instrs(q, func(in ssa.Instruction) {
			if iff, ok := in.(*ssa.If); ok {
				v := iff.Cond
				if u, isU := v.(*ssa.UnOp); isU && u.Op == token.NOT {
					v = u.X
				}
				if o, _, _, okf := FieldOf(v); okf && o == rv.Ctl.Obj().Name() {
					if b, isB := v.Type().Underlying().(*types.Basic); isB && b.Kind() == types.Bool {
						tests = true
					}
				}
			}
		})
		if tests {
			flagged = append(flagged, q)
		}
	}
	sort.Slice(flagged, func(i, j int) bool { return flagged[i].Pos() < flagged[j].Pos() })
	if len(flagged) > 0 {
		rv.Queue = flagged[0]
	}
	// request closures: every value flowing into a queueing function's parameter
	seen := map[*ssa.Function]bool{}
	for _, fn := range p.LibFuncs() {
		Instrs(fn, func(in ssa.Instruction) {
			ci, ok := in.(ssa.CallInstruction)
			if !ok || ci.Common().StaticCallee() == nil || !rv.Queues[ci.Common().StaticCallee()] {
				return
			}
			args := ci.Common().Args
			if _, isPrm := args[len(args)-1].(*ssa.Parameter); isPrm && rv.Queues[fn] {
				return // a wrapper passing its parameter on
			}
			rv.CallSites = append(rv.CallSites, ci)
			fns, ok := ResolveFuncs(args[len(args)-1])
			if !ok || len(fns) == 0 {
				rv.Unresolved = append(rv.Unresolved, ci)
				return
			}
			for _, f := range fns {
				if !seen[f] {
					seen[f] = true
					rv.Closures = append(rv.Closures, f)
					rv.ClosureOf[f] = ci
				}
			}
		})
	}
	sort.Slice(rv.Closures, func(i, j int) bool { return rv.Closures[i].Pos() < rv.Closures[j].Pos() })
	return rv, nil
}

// IsResultSend: a send on the controller's result channel.
func (rv *Rendezvous) IsResultSend(in ssa.Instruction) bool {
	s, ok := in.(*ssa.Send)
	if !ok {
		return false
	}
	owner, f, _, ok := FieldOf(s.Chan)
	return ok && f == rv.ResField && owner == rv.Ctl.Obj().Name()
}

// GoStarts lists every `go` statement in library code with its resolved callees.
type GoStart struct {
	Instr   *ssa.Go
	In      *ssa.Function
	Callees []*ssa.Function
}

func (p *Prog) GoStarts() []GoStart {
	var out []GoStart
	for _, fn := range p.LibFuncs() {
		Instrs(fn, func(in ssa.Instruction) {
			g, ok := in.(*ssa.Go)
			if !ok {
				return
			}
			gs := GoStart{Instr: g, In: fn}
			if f := g.Call.StaticCallee(); f != nil {
				gs.Callees = []*ssa.Function{f}
			} else if fns, ok := ResolveFuncs(g.Call.Value); ok {
				gs.Callees = fns
			} else {
				gs.Callees = p.callees(g)
			}
			out = append(out, gs)
		})
	}
	return out
}
