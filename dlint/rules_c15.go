package main

import (
	"fmt"
	"go/token"
	"go/types"
	"sort"
	"strings"

	"golang.org/x/tools/go/ssa"
)

func init() {
	register(&RuleSet{
		Property: "C15",
		Explanation: "Decides, for every byte string and every constructible packet, the panic-freedom clauses of the packet decoder and accessors that are visible in the shape of the code, plus encoder/decoder table agreement: " +
			"(R1) every dereference of a header item the decoder may leave unset (format, shape, timestamp) and of a may-be-nil accessor result is dominated by its nil test or by a store of a fresh object; " +
			"(R2) every integer division / modulus in the package has a divisor proven non-zero (constant, guarded, or clamped); " +
			"(R3) every slice index, slice bound, make size and fixed-width big-endian read in the decoder (ReadPacket, the TLV parser, the accessors, the constructors and the encoder) is proven in range from dominating guards, range loops, the inferred loop invariant len(remaining data) == remaining byte count, and counting-loop parity; " +
			"(R4) the fixed header is written and read as the same field sequence at the same offsets and widths, and every TLV tag the encoder emits has a case in the parser; " +
			"(R5) the decoder reads exactly three regions sized 16, headerLength-16 and at most payloadLength bytes; " +
			"(R6) no explicit panic / log.Fatal is reachable from the decoder or an accessor. " +
			"Does not decide: byte-swap stride arithmetic (needs divisibility facts about slice lengths), round-trip equality of payload values, type-switch completeness beyond the explicit default arms.",
		RuleDocs: []string{
			"C15.R8 the amount discarded after a packet: stride - length%stride only under a test that the remainder is not zero, else nothing (alternatives followed through phis and helper returns)",
			"C15.R10 when a helper recomputes the header/packet lengths from the packet's contents, no caller assigns a field the helper reads after calling it without calling it again (the stored lengths describe the contents the encoder will write)",
			"C15.R11 every call of (reflect.Value).Int/Uint/Float in the package is control-dependent on an equality test of a Kind() result against a kind of the matching family (these accessors panic on other kinds; payloads of multi-component formats are kept as bytes)",
			"C15.R13 (contradiction) a nil test of a header item of the packet is not reached only through assignments of nil to that item: otherwise the guarded fix-up of the lengths is dead",
			"C15.R12 Frames and ChannelInfo derive the channel count from shape.Sizes by the same fold (which elements: every one of a 0..len loop or fixed positions; how combined: product from 1, only those > 0 or all), read in the accessor and the helpers it calls; unrecognised forms are undecided",
			"C15.R9 the byte-order argument of binary.Read is a concrete value or tested non-nil, unless the data argument is a byte slice",
			"C15.R1 nil-guard dominance on loads of pointer-typed struct fields and on results of may-return-nil accessors",
			"C15.R2 divisor != 0 by guard dominance (E6) incl. the clamp idiom (phi of guarded value and constant)",
			"C15.R3 index / slice / make / Uint16-32-64 read safety by guard dominance (E6) with loop-invariant inference and parity sharpening; lifted to callers when the function cannot prove it",
			"C15.R4 header layout agreement (writer sequence vs reader offsets) and TLV tag coverage",
			"C15.R7 TLV byte accounting in the encoder: for every item, the bytes written (loop trip counts included) equal 8 x the value written as its length byte, identically in the slice lengths (n = c(n/c) + n%c normalisation)",
			"C15.R5 sizes of the buffers passed to io.ReadFull / binary.Read in ReadPacket",
			"C15.R6 reachability of panic / log.Fatal from the decoder and accessors",
		},
		Assumptions: []string{"encoding/binary's fixed-width readers panic exactly when the slice is shorter than the width; io.ReadFull reads exactly len(buf) bytes or fails", "receivers of *Packet methods are non-nil (the decoder returns a nil packet only together with an error)"},
		Run:         runC15,
	})
}

func inPackets(fn *ssa.Function) bool {
	pk := fnPkg(fn)
	return pk != nil && pk.Path() == modPath+"/packets"
}

func runC15(p *Prog, r *Report) {
	r.MinInstances["C15.R1"] = 8
	r.MinInstances["C15.R2"] = 4
	r.MinInstances["C15.R3"] = 40
	r.MinInstances["C15.R4"] = 7
	r.MinInstances["C15.R5"] = 5
	r.MinInstances["C15.R6"] = 1
	r.MinInstances["C15.R7"] = 4
	r.MinInstances["C15.R8"] = 1
	r.MinInstances["C15.R12"] = 1
	var fns []*ssa.Function
	for _, fn := range p.LibFuncs() {
		if inPackets(fn) {
			fns = append(fns, fn)
		}
	}
	if len(fns) == 0 {
		r.Unk("C15.anchor", "package packets", "-", "no functions found")
		return
	}
	c15R1(p, r, fns)
	c15R2R3(p, r, fns)
	c15R4(p, r)
	c15R5(p, r)
	c15R6(p, r, fns)
	c15R7(p, r)
	c15R8(p, r, fns)
	c15R9(p, r, fns)
	c15R10(p, r)
	c15R11(p, r, fns)
	c15R12(p, r, fns)
	c15R13(p, r, fns)
}

// ---- R1 -----------------------------------------------------------------------------------

// nonNilAt: is pointer value ptr known non-nil at instruction `at`?
func nonNilAt(g *GuardCtx, ptr ssa.Value, at ssa.Instruction) (bool, string) {
	switch x := ptr.(type) {
	case *ssa.Alloc, *ssa.FieldAddr, *ssa.IndexAddr, *ssa.MakeInterface, *ssa.Global, *ssa.Function, *ssa.MakeClosure:
		return true, "address of an object"
	case *ssa.Parameter:
		if x.Parent().Signature.Recv() != nil && x == x.Parent().Params[0] {
			return true, "method receiver"
		}
	case *ssa.Phi:
		all := true
		for _, e := range x.Edges {
			if ok, _ := nonNilAt(g, e, at); !ok {
				all = false
			}
		}
		if all {
			return true, "every incoming value is non-nil"
		}
	case *ssa.UnOp:
		if x.Op != token.MUL {
			break
		}
		// forwarded store of a fresh object
		if st := g.PC.forwardedStore(x); st != nil {
			if ok, why := nonNilAt(g, st.Val, st); ok {
				return true, "stored just before: " + why
			}
		}
		sym := g.PC.loadPoly(x).String()
		if nilTestDominates(g, sym, at.Block()) {
			return true, "dominated by a nil test of " + sym
		}
		// an unexported helper: the test may be made by every caller before the call
		if ok, why := nonNilAtCallers(g, x, at.Parent()); ok {
			return true, why
		}
		return false, "load of " + sym + " without a dominating nil test"
	}
	// any value: a dominating test of the value itself
	if nilTestDominatesValue(ptr, at.Block()) {
		return true, "dominated by a nil test of the value"
	}
	return false, "no dominating nil test"
}

// nonNilAtCallers: ld loads field f of a parameter of the unexported function fn (no store to
// that field in fn), every use of fn is a static call in the module, and at each of them a nil
// test of the same field of the argument dominates the call.
func nonNilAtCallers(g *GuardCtx, ld *ssa.UnOp, fn *ssa.Function) (bool, string) {
	fa, ok := ld.X.(*ssa.FieldAddr)
	if !ok {
		return false, ""
	}
	prm, ok := fa.X.(*ssa.Parameter)
	if !ok || prm.Parent() != fn || fn.Object() == nil || fn.Object().Exported() {
		return false, ""
	}
	idx := -1
	for i, q := range fn.Params {
		if q == prm {
			idx = i
		}
	}
	stored := false
	Instrs(fn, func(in ssa.Instruction) {
		if st, ok := in.(*ssa.Store); ok {
			if fa2, ok := st.Addr.(*ssa.FieldAddr); ok && fa2.Field == fa.Field && types.Identical(fa2.X.Type(), fa.X.Type()) {
				stored = true
			}
		}
	})
	if idx < 0 || stored {
		return false, ""
	}
	sites, complete := g.P.staticCallSites(fn)
	if !complete || len(sites) == 0 {
		return false, ""
	}
	for _, site := range sites {
		caller := site.Parent()
		cc := CallOf(site)
		if idx >= len(cc.Args) {
			return false, ""
		}
		arg := cc.Args[idx]
		gc := NewGuardCtx(g.P, caller, nil)
		okSite := false
		Instrs(caller, func(in ssa.Instruction) {
			l2, ok := in.(*ssa.UnOp)
			if !ok || l2.Op != token.MUL || okSite {
				return
			}
			fa2, ok := l2.X.(*ssa.FieldAddr)
			if !ok || fa2.X != arg || fa2.Field != fa.Field {
				return
			}
			if nilTestDominates(gc, gc.PC.loadPoly(l2).String(), site.Block()) {
				// no store to the field between the test and the call
				clean := true
				for _, st := range allFieldStores(caller, fa2) {
					if InstrReaches(l2, st) && InstrReaches(st, site) {
						clean = false
					}
				}
				okSite = clean
			}
		})
		if !okSite {
			return false, ""
		}
	}
	return true, fmt.Sprintf("every call of %s (%d) is dominated by a nil test of the argument's field", FuncName(fn), len(sites))
}

func allFieldStores(fn *ssa.Function, like *ssa.FieldAddr) []ssa.Instruction {
	var out []ssa.Instruction
	Instrs(fn, func(in ssa.Instruction) {
		if st, ok := in.(*ssa.Store); ok {
			if fa, ok := st.Addr.(*ssa.FieldAddr); ok && fa.Field == like.Field && types.Identical(fa.X.Type(), like.X.Type()) {
				out = append(out, in)
			}
		}
	})
	return out
}

// nilTestDominates: some dominating branch establishes load(sym) != nil.
func nilTestDominates(g *GuardCtx, sym string, b *ssa.BasicBlock) bool {
	for d := b.Idom(); d != nil; d = d.Idom() {
		iff, ok := d.Instrs[len(d.Instrs)-1].(*ssa.If)
		if !ok {
			continue
		}
		e := edgeOwner(d, b)
		if e < 0 {
			continue
		}
		if nilCond(g, iff.Cond, e == 0, sym) {
			return true
		}
	}
	return false
}

func nilCond(g *GuardCtx, cond ssa.Value, truth bool, sym string) bool {
	bo, ok := cond.(*ssa.BinOp)
	if !ok {
		if u, ok := cond.(*ssa.UnOp); ok && u.Op == token.NOT {
			return nilCond(g, u.X, !truth, sym)
		}
		return false
	}
	var other ssa.Value
	if c, ok := bo.Y.(*ssa.Const); ok && c.Value == nil {
		other = bo.X
	} else if c, ok := bo.X.(*ssa.Const); ok && c.Value == nil {
		other = bo.Y
	} else {
		return false
	}
	ld, ok := other.(*ssa.UnOp)
	if !ok || ld.Op != token.MUL {
		return false
	}
	if g.PC.loadPoly(ld).String() != sym {
		return false
	}
	return (bo.Op == token.NEQ && truth) || (bo.Op == token.EQL && !truth)
}

func nilTestDominatesValue(v ssa.Value, b *ssa.BasicBlock) bool {
	for d := b.Idom(); d != nil; d = d.Idom() {
		iff, ok := d.Instrs[len(d.Instrs)-1].(*ssa.If)
		if !ok {
			continue
		}
		e := edgeOwner(d, b)
		if e < 0 {
			continue
		}
		bo, ok := iff.Cond.(*ssa.BinOp)
		if !ok {
			continue
		}
		var other ssa.Value
		if c, ok := bo.Y.(*ssa.Const); ok && c.Value == nil {
			other = bo.X
		} else if c, ok := bo.X.(*ssa.Const); ok && c.Value == nil {
			other = bo.Y
		}
		if other != v {
			continue
		}
		if (bo.Op == token.NEQ && e == 0) || (bo.Op == token.EQL && e == 1) {
			return true
		}
	}
	return false
}

func mayReturnNil(fn *ssa.Function) bool {
	res := false
	Instrs(fn, func(in ssa.Instruction) {
		ret, ok := in.(*ssa.Return)
		if !ok || len(ret.Results) != 1 {
			return
		}
		if c, ok := ret.Results[0].(*ssa.Const); ok && c.Value == nil {
			if _, isPtr := c.Type().Underlying().(*types.Pointer); isPtr {
				res = true
			}
		}
	})
	return res
}

func c15R1(p *Prog, r *Report, fns []*ssa.Function) {
	check := func(fn *ssa.Function, onlyCallResults bool) {
		g := NewGuardCtx(p, fn, nil)
		n := map[string]int{}
		Instrs(fn, func(in ssa.Instruction) {
			var ptr ssa.Value
			switch x := in.(type) {
			case *ssa.FieldAddr:
				ptr = x.X
			case *ssa.UnOp:
				if x.Op == token.MUL {
					ptr = x.X
				}
			case *ssa.Store:
				ptr = x.Addr
			}
			if ptr == nil {
				return
			}
			what := ""
			switch y := ptr.(type) {
			case *ssa.UnOp:
				if y.Op != token.MUL {
					return
				}
				owner, f, _, ok := FieldOf(y)
				if !ok {
					return
				}
				if _, isPtr := y.Type().Underlying().(*types.Pointer); !isPtr {
					return
				}
				if onlyCallResults {
					return
				}
				what = owner + "." + f
			case *ssa.Call:
				c := y.Call.StaticCallee()
				if c == nil || !inPackets(c) || !mayReturnNil(c) {
					return
				}
				what = "result of " + FuncName(c)
			default:
				return
			}
			n[what]++
			ok, why := nonNilAt(g, ptr, in)
			key := fmt.Sprintf("deref of %s in %s #%d", what, FuncName(fn), n[what])
			if ok {
				r.OK("C15.R1", key, p.InstrPos(in), why)
			} else {
				r.Bad("C15.R1", key, p.InstrPos(in), why+": the decoder accepts packets without this header item, so this dereference can panic")
			}
		})
	}
	for _, fn := range fns {
		r.Fn(FuncName(fn))
		check(fn, false)
	}
	// users of may-return-nil accessors outside the package
	for _, fn := range p.LibFuncs() {
		if inPackets(fn) {
			continue
		}
		uses := false
		Instrs(fn, func(in ssa.Instruction) {
			if call, ok := in.(*ssa.Call); ok {
				if c := call.Call.StaticCallee(); c != nil && inPackets(c) && mayReturnNil(c) {
					uses = true
				}
			}
		})
		if uses {
			r.Fn(FuncName(fn))
			check(fn, true)
		}
	}
}

// ---- R2 / R3 ------------------------------------------------------------------------------

// allSinks lists every guarded use in fn (not only tainted ones).
func allSinks(fn *ssa.Function) []Sink {
	var out []Sink
	Instrs(fn, func(in ssa.Instruction) {
		switch x := in.(type) {
		case *ssa.IndexAddr:
			out = append(out, Sink{SinkIndex, in, x.Index, x.X})
		case *ssa.Index:
			if _, isStr := x.X.Type().Underlying().(*types.Basic); isStr {
				out = append(out, Sink{SinkIndex, in, x.Index, x.X})
			} else {
				out = append(out, Sink{SinkIndex, in, x.Index, x.X})
			}
		case *ssa.Slice:
			if x.Low != nil {
				out = append(out, Sink{SinkSliceLo, in, x.Low, x.X})
			}
			if x.High != nil {
				out = append(out, Sink{SinkSliceHi, in, x.High, x.X})
			}
		case *ssa.MakeSlice:
			out = append(out, Sink{SinkMakeLen, in, x.Len, nil})
			if x.Cap != x.Len {
				out = append(out, Sink{SinkMakeLen, in, x.Cap, nil})
			}
		case *ssa.BinOp:
			if (x.Op == token.QUO || x.Op == token.REM) && isIntLike(x.Type()) && !isTimeTime(x.Type()) {
				out = append(out, Sink{SinkDivisor, in, x.Y, nil})
			}
		}
	})
	return out
}

// c15Weaker: two stated places where the full bound is relational and a weaker, structural
// necessary condition is checked instead (one named function each, reason given).
func c15Weaker(p *Prog, g *GuardCtx, fn *ssa.Function, s Sink, goal Goal) (string, bool) {
	switch {
	case fn.Name() == "ReadValue" && s.Kind == SinkIndex && goal.What == "index < len":
		// len(Data) vs Frames() is a relation established by the decoder and the constructor
		// (payloadLength = wordlen * len(Data)); decided here: the index is below the frame count.
		var frames ssa.Value
		Instrs(fn, func(in ssa.Instruction) {
			if call, ok := in.(*ssa.Call); ok {
				if c := call.Call.StaticCallee(); c != nil && c.Name() == "Frames" && len(call.Call.Args) == 1 && resolveCell(call.Call.Args[0]) == ssa.Value(fn.Params[0]) {
					frames = call
				}
			}
		})
		if frames != nil && g.Prove(g.PC.Of(frames).Sub(g.PC.Of(s.V)).Sub(polyConst(1)), s.Instr) {
			return "weaker clause decided: index < Frames() of the same packet (the relation Frames() <= len(Data) is established by the decoder/constructor and not decided here)", true
		}
	case s.Kind == SinkDivisor:
		// the stride handed to the packet reader by its caller, used directly or passed on
		// unchanged to a helper of the reader
		var isStride func(v ssa.Value, depth int) bool
		isStride = func(v ssa.Value, depth int) bool {
			prm, ok := stripConv(v).(*ssa.Parameter)
			if !ok || depth > 2 {
				return false
			}
			f := prm.Parent()
			if f.Name() == "ReadPacketPlusPad" && prm.Name() == "stride" {
				return true
			}
			sites, complete := p.staticCallSites(f)
			if !complete || len(sites) == 0 {
				return false
			}
			for k, pp := range f.Params {
				if pp != prm {
					continue
				}
				for _, site := range sites {
					cc := CallOf(site)
					if cc == nil || k >= len(cc.Args) || !isStride(cc.Args[k], depth+1) {
						return false
					}
				}
				return true
			}
			return false
		}
		if isStride(s.V, 0) {
			return "API precondition, not packet content: the caller's stride (ring-buffer packet size) must be non-zero", true
		}
	}
	return "", false
}

// fixedReads: calls of encoding/binary's fixed-width readers with the width they need.
func fixedRead(in ssa.Instruction) (ssa.Value, int64, bool) {
	cc := CallOf(in)
	if cc == nil {
		return nil, 0, false
	}
	name := CalleeName(cc)
	for suffix, w := range map[string]int64{".Uint16": 2, ".Uint32": 4, ".Uint64": 8} {
		if strings.HasSuffix(name, suffix) && strings.Contains(name, "encoding/binary") && len(cc.Args) >= 1 {
			return cc.Args[len(cc.Args)-1], w, true
		}
	}
	return nil, 0, false
}

func c15R2R3(p *Prog, r *Report, fns []*ssa.Function) {
	eng := NewGuardEngine(p, NewTaint(p), nil)
	eng.AllSites = true
	notDecided := map[string]string{
		"byteSwap2": "stride arithmetic needs divisibility of the slice length by the word size (a fact about getbytes' unsafe slices)",
	}
	for _, fn := range fns {
		if why, skip := notDecided[fn.Name()]; skip {
			r.Notes = append(r.Notes, "C15.R3 does not decide "+FuncName(fn)+": "+why)
			continue
		}
		g := eng.Ctx(fn)
		r.Fn(FuncName(fn))
		cnt := map[string]int{}
		for _, s := range allSinks(fn) {
			for _, goal := range g.SinkGoals(s) {
				// trivially constant goals are not obligations
				if c, ok := goal.P.IsConst(); ok && !goal.NE && c >= 0 {
					continue
				}
				if c, ok := goal.P.IsConst(); ok && goal.NE && c != 0 {
					continue
				}
				rule := "C15.R3"
				if s.Kind == SinkDivisor {
					rule = "C15.R2"
				}
				base := fmt.Sprintf("%s of %s in %s: %s", s.Kind, sinkContainer(s), FuncName(fn), goal.What)
				cnt[base]++
				key := fmt.Sprintf("%s #%d", base, cnt[base])
				r.CallSites++
				o := eng.Discharge(fn, goal.P, goal.NE, s.Instr, 0, map[string]bool{})
				if !o.OK {
					if why, ok := c15Weaker(p, g, fn, s, goal); ok {
						r.OK(rule, key, p.InstrPos(s.Instr), why)
						continue
					}
				}
				if o.OK {
					r.OK(rule, key, p.InstrPos(s.Instr), strings.Join(o.Trail, "; "))
				} else {
					r.Bad(rule, key, p.InstrPos(s.Instr), fmt.Sprintf("`%s` is not guaranteed: %s", goal.What, strings.Join(o.Trail, "; ")))
				}
			}
		}
		// fixed-width reads
		Instrs(fn, func(in ssa.Instruction) {
			arg, w, ok := fixedRead(in)
			if !ok {
				return
			}
			goal := g.PC.lenOf(arg).Sub(polyConst(w))
			base := fmt.Sprintf("%d-byte read in %s", w, FuncName(fn))
			cnt[base]++
			key := fmt.Sprintf("%s #%d", base, cnt[base])
			o := eng.Discharge(fn, goal, false, in, 0, map[string]bool{})
			if o.OK {
				r.OK("C15.R3", key, p.InstrPos(in), strings.Join(o.Trail, "; "))
			} else {
				r.Bad("C15.R3", key, p.InstrPos(in), fmt.Sprintf("the slice passed to a fixed-width read is not proven to hold %d bytes: %s", w, strings.Join(o.Trail, "; ")))
			}
		})
	}
}

// ---- R4 -----------------------------------------------------------------------------------

func c15R4(p *Prog, r *Report) {
	enc := p.Func("packets", "Packet", "Bytes")
	dec := p.Func("packets", "", "ReadPacket")
	par := p.Func("packets", "", "parseTLV")
	if enc == nil || dec == nil || par == nil {
		r.Unk("C15.R4", "Bytes/ReadPacket/parseTLV", "-", "anchor not found")
		return
	}
	r.Fn(FuncName(enc))
	r.Fn(FuncName(dec))
	// writer: the first binary.Write calls in the entry block, in order
	type wr struct {
		size int64
		what string
	}
	var ws []wr
	sizes := types.SizesFor("gc", "amd64")
	for _, v := range c15EntryWrites(enc, 6) {
		if mi, ok := v.(*ssa.MakeInterface); ok {
			v = mi.X
		}
		what := "?"
		if _, f, _, ok := FieldOf(v); ok {
			what = f
		} else if c, ok := v.(*ssa.Const); ok {
			what = "const " + c.Value.ExactString()
		} else if cv, ok := stripConv(v).(*ssa.Const); ok {
			what = "const " + cv.Value.ExactString()
		}
		ws = append(ws, wr{sizes.Sizeof(v.Type()), what})
		if len(ws) == 6 {
			break
		}
	}
	// reader: hdr[k] / Uint16(hdr[k:]) / Uint32(hdr[k:]) stored to fields
	type rd struct {
		off, size int64
		what      string
	}
	var rs []rd
	hdrOf := func(v ssa.Value) (int64, bool) {
		// v is hdr[k:] (Slice with constant low) of the 16-byte buffer
		sl, ok := v.(*ssa.Slice)
		if !ok {
			return 0, false
		}
		if !isHdrBuf(sl.X) {
			return 0, false
		}
		if sl.Low == nil {
			return 0, true
		}
		k, ok := constInt(sl.Low)
		return k, ok
	}
	fieldStoredFrom := func(v ssa.Value) string {
		// follow v (through conversions / locals) to a store into a Packet field or a comparison with the magic
		seen := map[ssa.Value]bool{}
		var res string
		var walk func(v ssa.Value)
		walk = func(v ssa.Value) {
			if seen[v] || res != "" {
				return
			}
			seen[v] = true
			for _, ref := range *v.Referrers() {
				switch x := ref.(type) {
				case *ssa.Store:
					if _, f, _, ok := FieldOf(x.Addr); ok {
						res = f
					} else if fa, ok := x.Addr.(*ssa.FieldAddr); ok {
						st := derefStruct(fa.X.Type())
						res = st.Field(fa.Field).Name()
					}
				case *ssa.Convert:
					walk(x)
				case *ssa.BinOp:
					if x.Op == token.NEQ || x.Op == token.EQL {
						// compared with a constant, on either side
						for _, o := range []ssa.Value{x.Y, x.X} {
							if c, ok := o.(*ssa.Const); ok && c.Value != nil {
								res = "const " + c.Value.ExactString()
							}
						}
					}
				}
			}
		}
		walk(v)
		return res
	}
	decFns := append([]*ssa.Function{dec}, c15HdrHelpers(dec)...)
	for _, df := range decFns {
		Instrs(df, func(in ssa.Instruction) {
			if arg, w, ok := fixedRead(in); ok {
				if off, ok := hdrOf(arg); ok {
					rs = append(rs, rd{off, w, fieldStoredFrom(in.(ssa.Value))})
				}
			}
			if u, ok := in.(*ssa.UnOp); ok && u.Op == token.MUL {
				if ia, ok := u.X.(*ssa.IndexAddr); ok {
					if isHdrBuf(ia.X) {
						if k, ok := constInt(ia.Index); ok {
							rs = append(rs, rd{k, 1, fieldStoredFrom(u)})
						}
					}
				}
			}
		})
	}
	sort.Slice(rs, func(i, j int) bool { return rs[i].off < rs[j].off })
	off := int64(0)
	for i, w := range ws {
		var match *rd
		for k := range rs {
			if rs[k].off == off && (match == nil || match.what != w.what || match.size != w.size) {
				match = &rs[k] // a slot read more than once (tested, then stored): the read that is stored decides
			}
		}
		name := fmt.Sprintf("header slot %d (%s, %d bytes at offset %d)", i, w.what, w.size, off)
		switch {
		case match == nil:
			r.Bad("C15.R4", name, p.Pos(dec.Pos()), "the decoder reads nothing at this offset")
		case match.size != w.size:
			r.Bad("C15.R4", name, p.Pos(dec.Pos()), fmt.Sprintf("the decoder reads %d bytes here, the encoder writes %d", match.size, w.size))
		case match.what != w.what:
			r.Bad("C15.R4", name, p.Pos(dec.Pos()), fmt.Sprintf("the decoder stores this slot into %q, the encoder wrote %q", match.what, w.what))
		default:
			r.OK("C15.R4", name, p.Pos(dec.Pos()), "same width, same field on both sides")
		}
		off += w.size
	}
	if len(ws) == 0 {
		r.Unk("C15.R4", "fixed header length", p.Pos(enc.Pos()), "no binary.Write of the fixed header is found at the start of the encoder (directly, through a helper that writes its parameters, or through one that writes every element of a list): the form of the encoder is not recognised")
	} else if len(ws) != 6 || off != 16 {
		r.Bad("C15.R4", "fixed header length", p.Pos(enc.Pos()), fmt.Sprintf("the encoder's fixed header is %d fields / %d bytes, the decoder reads 16", len(ws), off))
	} else {
		r.OK("C15.R4", "fixed header length", p.Pos(enc.Pos()), "6 fields, 16 bytes")
	}
	// TLV tags written by the encoder vs cases of the parser
	tagConst := map[int64]string{}
	if sp := p.pkgOf("packets"); sp != nil {
		for name, m := range sp.Members {
			if nc, ok := m.(*ssa.NamedConst); ok && strings.HasPrefix(name, "tlv") {
				if v, ok := constInt(nc.Value); ok {
					tagConst[v] = name
				}
			}
		}
	}
	written := map[int64]bool{}
	Instrs(enc, func(in ssa.Instruction) {
		if !IsCallTo(in, "encoding/binary.Write") {
			return
		}
		v := CallOf(in).Args[2]
		if mi, ok := v.(*ssa.MakeInterface); ok {
			v = mi.X
		}
		if c, ok := v.(*ssa.Const); ok && types.Identical(c.Type().Underlying(), types.Typ[types.Uint8]) {
			if n, ok := constInt(c); ok {
				if _, isTag := tagConst[n]; isTag && n != 0 && n != 1 && n != 2 {
					written[n] = true
				}
			}
		}
	})
	parsed := map[int64]bool{}
	Instrs(par, func(in ssa.Instruction) {
		if bo, ok := in.(*ssa.BinOp); ok && bo.Op == token.EQL {
			if n, ok := constInt(bo.Y); ok {
				parsed[n] = true
			}
		}
	})
	var tags []int64
	for t := range written {
		tags = append(tags, t)
	}
	sort.Slice(tags, func(i, j int) bool { return tags[i] < tags[j] })
	for _, t := range tags {
		r.Check(parsed[t], "C15.R4", "TLV tag "+tagConst[t]+" emitted by the encoder has a parser case", p.Pos(par.Pos()), "parsed", "the encoder emits a TLV the parser has no case for: decode(encode(p)) loses it")
	}
}

// c15HdrParams: parameters of helpers of the decoder that receive the 16-byte header buffer.
var c15HdrParams = map[*ssa.Parameter]bool{}

// c15HdrHelpers: the module helpers the decoder hands its header buffer to (whole, not a window).
func c15HdrHelpers(dec *ssa.Function) []*ssa.Function {
	var out []*ssa.Function
	Instrs(dec, func(in ssa.Instruction) {
		cc := CallOf(in)
		if cc == nil || cc.IsInvoke() {
			return
		}
		h := cc.StaticCallee()
		if !isModuleFn(h) || len(h.Params) != len(cc.Args) || len(h.Blocks) == 0 {
			return
		}
		for i, a := range cc.Args {
			if _, isPrm := a.(*ssa.Parameter); !isPrm && isHdrBuf(a) {
				c15HdrParams[h.Params[i]] = true
				out = append(out, h)
			}
		}
	})
	return out
}

// isHdrBuf: the 16-byte header buffer made at the start of the decoder.
func isHdrBuf(v ssa.Value) bool {
	switch x := v.(type) {
	case *ssa.Parameter:
		return c15HdrParams[x]
	case *ssa.MakeSlice:
		n, ok := constInt(x.Len)
		return ok && n == 16
	case *ssa.Slice:
		if a, ok := x.X.(*ssa.Alloc); ok {
			if pt, ok := a.Type().Underlying().(*types.Pointer); ok {
				if arr, ok := pt.Elem().Underlying().(*types.Array); ok && arr.Len() == 16 {
					return true
				}
			}
		}
	}
	return false
}

// ---- R5 -----------------------------------------------------------------------------------

func c15R5(p *Prog, r *Report) {
	dec := p.Func("packets", "", "ReadPacket")
	if dec == nil {
		r.Unk("C15.R5", "ReadPacket", "-", "anchor not found")
		return
	}
	pc := NewPolyCtx(dec)
	pc.G = true
	n := 0
	// reads of the input in ReadPacket and in the helpers of the package it hands the reader to
	InstrsDeep(dec, 2, func(d DeepInstr) {
		in := d.In
		isInput := func(v ssa.Value) bool {
			if mi, ok := v.(*ssa.MakeInterface); ok {
				v = mi.X
			}
			return resolveCell(ArgForParam(d.Path, v)) == ssa.Value(dec.Params[0])
		}
		cc := CallOf(in)
		if cc == nil || len(cc.Args) == 0 {
			return
		}
		var buf ssa.Value
		if IsCallTo(in, "io.ReadFull") && isInput(cc.Args[0]) {
			buf = cc.Args[1]
		} else if IsCallTo(in, "encoding/binary.Read") && isInput(cc.Args[0]) {
			buf = cc.Args[2]
			if mi, ok := buf.(*ssa.MakeInterface); ok {
				buf = mi.X
			}
		} else {
			// any other consumer of the reader parameter
			for _, a := range cc.Args {
				if isInput(a) {
					if c := cc.StaticCallee(); isModuleFn(c) && inPackets(c) && len(d.Path) < 2 {
						r.Fn(FuncName(c))
						continue // followed: its reads are checked like the decoder's own
					}
					r.Bad("C15.R5", "unexpected consumer of the input in ReadPacket", p.InstrPos(in), "the reader is passed to "+CalleeName(cc)+": consumption is no longer bounded by the header")
				}
			}
			return
		}
		n++
		// the buffer: a make of known size, or the byte view of one
		elem := int64(1)
		if call, ok := buf.(*ssa.Call); ok {
			if c := call.Call.StaticCallee(); c != nil && strings.HasPrefix(c.Name(), "FromSlice") {
				buf = call.Call.Args[0]
				if sl, ok := buf.Type().Underlying().(*types.Slice); ok {
					elem = types.SizesFor("gc", "amd64").Sizeof(sl.Elem())
				}
			}
		}
		key := fmt.Sprintf("read #%d in ReadPacket", n)
		if isHdrBuf(buf) {
			r.OK("C15.R5", key, p.InstrPos(in), "the fixed 16-byte header")
			return
		}
		// the buffer kept in a field of the packet (p.Data made in one of several sizes, then one
		// read into whichever was made): every slice stored there that can reach the read is checked
		var bufs []ssa.Value
		var keys []string
		if ld, isLd := buf.(*ssa.UnOp); isLd && ld.Op == token.MUL {
			if o, f, _, okf := FieldOf(ld); okf {
				for _, st := range StoresTo(in.Parent(), o, f) {
					if !InstrReaches(st, in) {
						continue
					}
					v := st.Val
					if mi, isMI := v.(*ssa.MakeInterface); isMI {
						v = mi.X
					}
					bufs = append(bufs, v)
					keys = append(keys, fmt.Sprintf("%s (buffer %s made at %s)", key, v.Type().String(), p.InstrPos(st)))
				}
			}
		}
		if len(bufs) == 0 {
			bufs, keys = []ssa.Value{buf}, []string{key}
		}
		for bi, buf := range bufs {
			key := keys[bi]
			elem := elem
			if len(bufs) > 1 || bufs[0] != buf {
				if sl, ok := buf.Type().Underlying().(*types.Slice); ok {
					elem = types.SizesFor("gc", "amd64").Sizeof(sl.Elem())
				}
			}
			mk, ok := buf.(*ssa.MakeSlice)
			if !ok {
				r.Bad("C15.R5", key, p.InstrPos(in), "the buffer read into is not a slice made in the decoder with a header-derived size")
				continue
			}
			// size expression, structurally: headerLength - 16, payloadLength, payloadLength / elem
			fieldLoad := func(v ssa.Value) string {
				v = stripConv(v)
				if _, f, _, ok := FieldOf(v); ok {
					return f
				}
				return ""
			}
			sz := stripConv(mk.Len)
			okSize, desc := false, types.ExprString(nil)
			desc = sz.String()
			if bo, ok := sz.(*ssa.BinOp); ok {
				k, isC := constInt(bo.Y)
				switch {
				case bo.Op == token.SUB && fieldLoad(bo.X) == "headerLength" && isC && k == 16:
					okSize, desc = true, "headerLength - 16"
				case bo.Op == token.QUO && fieldLoad(bo.X) == "payloadLength" && isC && k == elem:
					okSize, desc = true, fmt.Sprintf("payloadLength / %d elements of %d bytes", k, elem)
				}
			} else if fieldLoad(sz) == "payloadLength" && elem == 1 {
				okSize, desc = true, "payloadLength"
			}
			_ = pc
			r.Check(okSize, "C15.R5", key, p.InstrPos(in), "buffer of "+desc, "the read buffer size ("+desc+", element size "+fmt.Sprint(elem)+") is not one of 16, headerLength-16, <= payloadLength")
		}
	})
}

// ---- R6 -----------------------------------------------------------------------------------

func c15R6(p *Prog, r *Report, fns []*ssa.Function) {
	roots := []*ssa.Function{}
	for _, fn := range fns {
		if fn.Parent() != nil {
			continue
		}
		if fn.Name() == "ReadPacket" || fn.Name() == "ReadPacketPlusPad" || (fn.Signature.Recv() != nil && typeName(fn.Signature.Recv().Type()) == "Packet") {
			roots = append(roots, fn)
		}
	}
	for _, root := range roots {
		var hit ssa.Instruction
		var where *ssa.Function
		seen := map[*ssa.Function]bool{}
		var visit func(f *ssa.Function, depth int)
		visit = func(f *ssa.Function, depth int) {
			if f == nil || seen[f] || f.Blocks == nil || hit != nil || depth > 6 {
				return
			}
			pk := fnPkg(f)
			if pk == nil || !strings.HasPrefix(pk.Path(), modPath) {
				return
			}
			seen[f] = true
			Instrs(f, func(in ssa.Instruction) {
				if hit != nil {
					return
				}
				if pn, ok := in.(*ssa.Panic); ok && !isSelectFallthroughPanic(pn) {
					hit, where = in, f
					return
				}
				if noReturnCall(in) {
					hit, where = in, f
					return
				}
				if CallOf(in) != nil {
					for _, c := range p.callees(in) {
						visit(c, depth+1)
					}
				}
			})
		}
		visit(root, 0)
		if hit == nil {
			r.OK("C15.R6", "no deliberate crash reachable from "+FuncName(root), p.Pos(root.Pos()), "no panic / log.Fatal / os.Exit site in module code reachable")
		} else {
			r.Bad("C15.R6", "no deliberate crash reachable from "+FuncName(root), p.InstrPos(hit), "a panic / fatal exit in "+FuncName(where)+" is reachable: decoding or inspecting a packet can terminate the server")
		}
	}
}

// ---- R8: the bytes skipped after a packet are the padding to the stride, and nothing else -------

// c15R8: where the decoder discards bytes after a packet (io.CopyN to io.Discard), the amount is
// the padding that fills the packet's last stride: `stride - length%stride` only on a way where
// `length%stride` was tested non-zero, otherwise nothing.  An unguarded `stride - length%stride`
// discards a whole extra stride whenever the length is a multiple of the stride, i.e. decoding
// consumes more than the header declares and swallows the next packet.
func c15R8(p *Prog, r *Report, fns []*ssa.Function) {
	for _, fn := range fns {
		Instrs(fn, func(in ssa.Instruction) {
			call, ok := in.(*ssa.Call)
			if !ok || CalleeName(&call.Call) != "io.CopyN" || len(call.Call.Args) != 3 {
				return
			}
			// destination io.Discard
			isDiscard := false
			if ld, ok := call.Call.Args[0].(*ssa.UnOp); ok {
				if g, ok := ld.X.(*ssa.Global); ok && g.Name() == "Discard" {
					isDiscard = true
				}
			}
			if !isDiscard {
				return
			}
			r.Fn(FuncName(fn))
			// the alternatives the amount can be, each with the tests it is taken under
			type alt struct {
				v     ssa.Value
				under []ctrl
			}
			var alts []alt
			var expand func(v ssa.Value, under []ctrl, depth int)
			expand = func(v ssa.Value, under []ctrl, depth int) {
				v = stripConv(v)
				if depth > 4 {
					alts = append(alts, alt{v, under})
					return
				}
				switch x := v.(type) {
				case *ssa.Phi:
					for i, e := range x.Edges {
						pred := x.Block().Preds[i]
						u := append(append([]ctrl{}, under...), controllingIfs(pred)...)
						u = append(u, ctrlOfEdge(pred, x.Block())...)
						expand(e, u, depth+1)
					}
				case *ssa.Call:
					if g := x.Call.StaticCallee(); g != nil && isModuleFn(g) && g.Blocks != nil && !x.Call.IsInvoke() {
						Instrs(g, func(y ssa.Instruction) {
							if ret, ok := y.(*ssa.Return); ok && len(ret.Results) == 1 {
								u := append(append([]ctrl{}, under...), controllingIfs(ret.Block())...)
								expand(ret.Results[0], u, depth+1)
							}
						})
						return
					}
					alts = append(alts, alt{v, under})
				default:
					alts = append(alts, alt{v, under})
				}
			}
			expand(call.Call.Args[2], controllingIfs(call.Block()), 0)
			bad, unk := "", ""
			for _, a := range alts {
				if k, isC := constInt(a.v); isC {
					if k != 0 {
						unk = fmt.Sprintf("a constant %d is skipped", k)
					}
					continue
				}
				sub, ok := a.v.(*ssa.BinOp)
				// (stride - length%stride) % stride: the remainder of the padding itself, zero for a whole number of strides
				if ok && sub.Op == token.REM {
					if in, isIn := stripConv(sub.X).(*ssa.BinOp); isIn && in.Op == token.SUB && sameValue(in.X, sub.Y) {
						if rm, isRm := stripConv(in.Y).(*ssa.BinOp); isRm && rm.Op == token.REM && sameValue(rm.Y, sub.Y) {
							continue
						}
					}
				}
				if !ok || sub.Op != token.SUB {
					unk = "the amount skipped is not of the form stride - length%stride"
					continue
				}
				rem, ok := stripConv(sub.Y).(*ssa.BinOp)
				if !ok || rem.Op != token.REM || stripConv(rem.Y) != stripConv(sub.X) {
					unk = "the amount skipped is not of the form stride - length%stride"
					continue
				}
				guarded := false
				for _, ct := range a.under {
					if lx, ly, side, ok := strictLess(ct.If.Cond); ok && side == ct.Branch {
						if z, isC := constInt(lx); isC && z == 0 && stripConv(ly) == ssa.Value(rem) {
							guarded = true
						}
					}
					if bo, ok := ct.If.Cond.(*ssa.BinOp); ok && (bo.Op == token.NEQ || bo.Op == token.EQL) {
						for _, pr := range [][2]ssa.Value{{bo.X, bo.Y}, {bo.Y, bo.X}} {
							if z, isC := constInt(pr[1]); isC && z == 0 && stripConv(pr[0]) == ssa.Value(rem) {
								if (bo.Op == token.NEQ && ct.Branch == 0) || (bo.Op == token.EQL && ct.Branch == 1) {
									guarded = true
								}
							}
						}
					}
				}
				if !guarded {
					bad = fmt.Sprintf("`%s` (computed at %s) is skipped without a test that the remainder is not zero", c05Describe(a.v, nil, 0), p.InstrPos(sub))
				}
			}
			key := "bytes skipped after a packet in " + FuncName(fn) + " are only the padding to the stride"
			switch {
			case bad != "":
				r.Bad("C15.R8", key, p.InstrPos(call), bad+": when the packet length is a whole number of strides a full extra stride is discarded, so the decoder consumes more bytes than the header declares and swallows the next packet")
			case unk != "":
				r.Unk("C15.R8", key, p.InstrPos(call), unk+": not decided")
			default:
				r.OK("C15.R8", key, p.InstrPos(call), fmt.Sprintf("%d alternative(s): stride - remainder under remainder > 0, else nothing", len(alts)))
			}
		})
	}
}

// ---- R9: the byte order handed to encoding/binary is not a nil interface -----------------------

// c15R9: binary.Read / binary.Write call methods of their ByteOrder argument for every data type
// except plain bytes; a nil interface there is a nil dereference inside the library (a panic of
// the decoder).  For each such call in the package whose data argument is not statically a byte
// slice, the order argument is a concrete value, or a merge of values each of which is concrete
// or arrives on the non-nil side of a nil test of itself.
func c15R9(p *Prog, r *Report, fns []*ssa.Function) {
	n := 0
	for _, fn := range fns {
		Instrs(fn, func(in ssa.Instruction) {
			// the decoding side only (the property is about decoding arbitrary bytes)
			if !IsCallTo(in, "encoding/binary.Read") {
				return
			}
			cc := CallOf(in)
			if len(cc.Args) != 3 {
				return
			}
			data := cc.Args[2]
			if mi, ok := data.(*ssa.MakeInterface); ok {
				if sl, ok := mi.X.Type().Underlying().(*types.Slice); ok {
					if b, ok := sl.Elem().Underlying().(*types.Basic); ok && (b.Kind() == types.Uint8 || b.Kind() == types.Int8) {
						return // bytes: the order is not used
					}
				}
			}
			n++
			r.Fn(FuncName(fn))
			var nonNil func(v ssa.Value, at *ssa.BasicBlock, d int) bool
			nonNil = func(v ssa.Value, at *ssa.BasicBlock, d int) bool {
				if d > 5 {
					return false
				}
				switch x := v.(type) {
				case *ssa.MakeInterface:
					return true
				case *ssa.ChangeInterface:
					return nonNil(x.X, at, d+1)
				case *ssa.Phi:
					for i, e := range x.Edges {
						if !nonNil(e, x.Block().Preds[i], d+1) {
							return false
						}
					}
					return len(x.Edges) > 0
				case *ssa.UnOp:
					if x.Op == token.MUL {
						if g, ok := x.X.(*ssa.Global); ok && fnPkgPathOfGlobal(g) == "encoding/binary" {
							return true
						}
						// the same field tested non-nil on the way here
						for _, blk := range []*ssa.BasicBlock{at, x.Block()} {
							if blk == nil {
								continue
							}
							for _, ct := range append(controllingIfs(blk), ctrlSelf(blk)...) {
								bo, ok := ct.If.Cond.(*ssa.BinOp)
								if !ok || (bo.Op != token.NEQ && bo.Op != token.EQL) {
									continue
								}
								var other ssa.Value
								if c, ok := bo.Y.(*ssa.Const); ok && c.Value == nil {
									other = bo.X
								} else if c, ok := bo.X.(*ssa.Const); ok && c.Value == nil {
									other = bo.Y
								}
								ld, ok := other.(*ssa.UnOp)
								if !ok {
									continue
								}
								pcx := NewPolyCtx(fn)
								p1, ok1 := pcx.accessPath(ld.X)
								p2, ok2 := pcx.accessPath(x.X)
								if ok1 && ok2 && p1 == p2 {
									if (bo.Op == token.NEQ && ct.Branch == 0) || (bo.Op == token.EQL && ct.Branch == 1) {
										return true
									}
								}
							}
						}
					}
				}
				return false
			}
			key := fmt.Sprintf("byte order of the binary call in %s #%d is not nil", FuncName(fn), n)
			r.Check(nonNil(cc.Args[1], in.Block(), 0), "C15.R9", key, p.InstrPos(in), "a concrete byte order, or tested non-nil on the way",
				"the byte order handed to encoding/binary can be a nil interface here (it is set only when the format string names one) while the data is not plain bytes: the library calls a method of it and the decoder panics on such a packet")
		})
	}
}

func fnPkgPathOfGlobal(g *ssa.Global) string {
	if g.Pkg == nil || g.Pkg.Pkg == nil {
		return ""
	}
	return g.Pkg.Pkg.Path()
}

// ctrlSelf: no extra controls (placeholder for symmetry with controllingIfs).
func ctrlSelf(b *ssa.BasicBlock) []ctrl { return nil }

// sameValue: the same SSA value up to conversions (parameters, constants of equal value).
func sameValue(a, b ssa.Value) bool {
	a, b = stripConv(a), stripConv(b)
	if a == b {
		return true
	}
	ka, oka := constInt(a)
	kb, okb := constInt(b)
	return oka && okb && ka == kb
}


// c15EntryWrites: the values an encoder writes with binary.Write before its first branch, in
// order (at most max).  Besides direct calls it reads (a) a call of a function or closure that
// writes every element of a variadic / slice parameter in order and nothing else (the elements
// are those of the slice literal at the call), and (b) a call of a module helper whose own entry
// block writes its parameters (they stand for the call's arguments).
func c15EntryWrites(fn *ssa.Function, max int) []ssa.Value {
	var out []ssa.Value
	var walk func(f *ssa.Function, bind map[ssa.Value]ssa.Value, depth int)
	resolve := func(v ssa.Value, bind map[ssa.Value]ssa.Value) ssa.Value {
		if mi, ok := v.(*ssa.MakeInterface); ok {
			if b, has := bind[mi.X]; has {
				return b
			}
			return v
		}
		if b, has := bind[v]; has {
			return b
		}
		return v
	}
	walk = func(f *ssa.Function, bind map[ssa.Value]ssa.Value, depth int) {
		for _, in := range f.Blocks[0].Instrs {
			if len(out) >= max {
				return
			}
			if IsCallTo(in, "encoding/binary.Write") {
				out = append(out, resolve(CallOf(in).Args[2], bind))
				continue
			}
			call, ok := in.(*ssa.Call)
			if !ok || depth >= 2 {
				continue
			}
			var callee *ssa.Function
			args := call.Call.Args
			switch cv := call.Call.Value.(type) {
			case *ssa.MakeClosure:
				callee, _ = cv.Fn.(*ssa.Function)
			case *ssa.Function:
				callee = cv
			}
			if callee == nil || !isModuleFn(callee) {
				continue
			}
			if k, isVar := c15VariadicWriter(callee); isVar && k < len(args) {
				for _, e := range c15SliceElems(args[k]) {
					out = append(out, resolve(e, bind))
				}
				continue
			}
			nb := map[ssa.Value]ssa.Value{}
			for i, prm := range callee.Params {
				if i < len(args) {
					nb[prm] = resolve(args[i], bind)
				}
			}
			walk(callee, nb, depth+1)
		}
	}
	walk(fn, map[ssa.Value]ssa.Value{}, 0)
	if len(out) > max {
		out = out[:max]
	}
	return out
}

// c15VariadicWriter: fn holds exactly one binary.Write, inside a loop that visits every element of
// one of fn's slice parameters in index order, and writes that element; returns the parameter's index.
func c15VariadicWriter(fn *ssa.Function) (int, bool) {
	var w *ssa.Call
	n := 0
	Instrs(fn, func(in ssa.Instruction) {
		if IsCallTo(in, "encoding/binary.Write") {
			n++
			w, _ = in.(*ssa.Call)
		}
	})
	if n != 1 || w == nil {
		return 0, false
	}
	ld, ok := w.Call.Args[2].(*ssa.UnOp)
	if !ok || ld.Op != token.MUL {
		return 0, false
	}
	ia, ok := ld.X.(*ssa.IndexAddr)
	if !ok {
		return 0, false
	}
	prm, ok := ia.X.(*ssa.Parameter)
	if !ok {
		return 0, false
	}
	idx := stripConv(ia.Index)
	if !c15CountsUp(idx) || !c15BoundedByLen(ia, idx, func(v ssa.Value) bool { return v == ssa.Value(prm) }) {
		return 0, false
	}
	for i, q := range fn.Params {
		if q == prm {
			return i, true
		}
	}
	return 0, false
}

// c15SliceElems: the elements of a slice literal / variadic argument list (a fresh array with one
// store per constant index, sliced whole), in index order; nil when v is not of that form.
func c15SliceElems(v ssa.Value) []ssa.Value {
	sl, ok := v.(*ssa.Slice)
	if !ok || sl.Low != nil || sl.High != nil {
		return nil
	}
	arr, ok := sl.X.(*ssa.Alloc)
	if !ok {
		return nil
	}
	at, ok := arr.Type().Underlying().(*types.Pointer).Elem().Underlying().(*types.Array)
	if !ok {
		return nil
	}
	elems := make([]ssa.Value, at.Len())
	for _, ref := range *arr.Referrers() {
		ia, ok := ref.(*ssa.IndexAddr)
		if !ok {
			continue
		}
		k, isC := constInt(ia.Index)
		if !isC || k < 0 || k >= at.Len() {
			return nil
		}
		for _, r2 := range *ia.Referrers() {
			if st, ok := r2.(*ssa.Store); ok && st.Addr == ssa.Value(ia) {
				if elems[k] != nil {
					return nil
				}
				elems[k] = st.Val
			}
		}
	}
	for _, e := range elems {
		if e == nil {
			return nil
		}
	}
	return elems
}
