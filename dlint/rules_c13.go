package main

import (
	"fmt"
	"go/token"
	"go/types"
	"sort"
	"strings"

	"golang.org/x/tools/go/ssa"
)

func init() {
	register(&RuleSet{
		Property: "C13",
		Explanation: "Decides structural necessary conditions of 'analysis values equal their definitions' (the numeric identities themselves quantify over record contents and are out of reach of a sound static argument): " +
			"(R1) projectors and basis are installed only after the three shape equalities (projector columns = record length, basis columns = projector rows, basis rows = record length) hold on the path, and only the installer/remover write them; " +
			"(R2) every store that can change a processor's record length is preceded by removal of projectors/basis unless the path has established that the length is unchanged, so projectors never outlive the length they were validated for; " +
			"(R3) every conversion of a record sample to float64 is under the record's signed/unsigned branch, through int16 exactly on the signed arm; " +
			"(R4) dependence rules on the per-record results: pre-trigger mean/delta depend on the record's own pre-trigger count and on no per-channel length setting; pulse average/RMS/peak depend on the record's data; model coefficients depend on the projector matrix and the residual on the basis matrix and the data; " +
			"(R5) slices stored into a record (model coefficients) are allocated afresh in the same loop iteration. " +
			"Does not decide: that the formulas equal the mathematical definitions (numeric).",
		RuleDocs: []string{
			"C13.R1 equality facts established by dominating comparisons (union-find over Dims() results and NSamples)",
			"C13.R2 path rule: store to NSamples reached only through removeProjectorsBasis or through the 'unchanged' edge of a comparison with the stored value",
			"C13.R3 control dependence of sample->float64 conversions on the signed flag",
			"C13.R4 flow-insensitive dependence slice (through memory of locals and pointer arguments of calls) of each analysis field store",
			"C13.R5 freshness of slices stored into records",
			"C13.R7 exactness of integer divisions: every integer division by a constant in the backward slice of a stored summary quantity (followed into module helpers) has a dividend that the constant always divides; decided by evaluating the dividend's one-unknown polynomial at 0..47, a non-multiple is the reported witness",
			"C13.R9 a DataSegment that is replaced as a whole through a pointer parameter is one made on the spot whose assigned fields (constructor plus later assignments) include every field of the type that is read anywhere in the module (signedness, scale, dropped frames survive decimation)",
			"C13.R8 no arithmetic (+ - * <<) in an 8- or 16-bit integer type anywhere in the value slice of a summary quantity, helpers included: samples are widened first",
			"C13.R6 sample ranges: the SSA slice of each pre-trigger quantity reads the record's vector only at indices [0, presamples), that of each post-trigger quantity only at [presamples, len) (cut at the pre-trigger mean); whole-vector reads are reported",
		},
		Run: runC13,
	})
}

func runC13(p *Prog, r *Report) {
	r.MinInstances["C13.R1"] = 3
	r.MinInstances["C13.R2"] = 1
	r.MinInstances["C13.R3"] = 2
	r.MinInstances["C13.R4"] = 7
	r.MinInstances["C13.R5"] = 1
	r.MinInstances["C13.R6"] = 5
	r.MinInstances["C13.R8"] = 5
	defer c13R9(p, r)
	r.MinInstances["C13.R7"] = 5
	c13R1(p, r)
	c13R2(p, r)
	c13R3R4R5(p, r)
	c13R6(p, r)
	c13R7(p, r)
}

// ---- R1 -----------------------------------------------------------------------------------

type uf map[string]string

func (u uf) find(x string) string {
	if _, ok := u[x]; !ok {
		u[x] = x
	}
	for u[x] != x {
		x = u[x]
	}
	return x
}
func (u uf) union(a, b string) { u[u.find(a)] = u.find(b) }

func c13Name(c *PolyCtx, v ssa.Value) string {
	v = stripConv(v)
	if e, ok := v.(*ssa.Extract); ok {
		if call, ok := e.Tuple.(*ssa.Call); ok && strings.HasSuffix(CalleeName(&call.Call), ".Dims") && len(call.Call.Args) == 1 {
			if prm, ok := call.Call.Args[0].(*ssa.Parameter); ok {
				return fmt.Sprintf("%s.%s", prm.Name(), []string{"rows", "cols"}[e.Index&1])
			}
			if ld, ok := call.Call.Args[0].(*ssa.UnOp); ok {
				if path, ok := c.accessPath(ld.X); ok {
					return fmt.Sprintf("%s.%s", path, []string{"rows", "cols"}[e.Index&1])
				}
			}
		}
	}
	return basePath(c.Of(v).String())
}

func c13R1(p *Prog, r *Report) {
	dsp := "DataStreamProcessor"
	var installers []*ssa.Function
	var bad []string
	for _, fn := range p.LibFuncs() {
		for _, f := range []string{"projectors", "basis"} {
			for _, st := range StoresTo(fn, dsp, f) {
				if _, isP := st.Val.(*ssa.Parameter); isP {
					found := false
					for _, x := range installers {
						if x == fn {
							found = true
						}
					}
					if !found {
						installers = append(installers, fn)
					}
				} else if _, fresh := addrRoot(st.Addr).(*ssa.Alloc); !fresh {
					// a non-parameter value stored into an existing processor: only an empty matrix is fine
					if al, ok := st.Val.(*ssa.Alloc); !ok || !strings.Contains(al.Type().String(), "mat.Dense") {
						bad = append(bad, FuncName(fn)+" at "+p.InstrPos(st))
					}
				}
			}
		}
	}
	r.Check(len(bad) == 0, "C13.R1", "writers of projectors/basis", "-", "only the validated installer stores caller-supplied matrices", "projectors/basis are stored outside the validated installer: "+strings.Join(bad, "; "))
	if len(installers) == 0 {
		r.Bad("C13.R1", "projector installer", "-", "no function installs caller-supplied projectors/basis")
		return
	}
	for _, fn := range installers {
		r.Fn(FuncName(fn))
		c := NewPolyCtx(fn)
		recv := fn.Params[0].Name()
		var pP, pB string
		for _, st := range StoresTo(fn, dsp, "projectors") {
			if prm, ok := st.Val.(*ssa.Parameter); ok {
				pP = prm.Name()
			}
		}
		for _, st := range StoresTo(fn, dsp, "basis") {
			if prm, ok := st.Val.(*ssa.Parameter); ok {
				pB = prm.Name()
			}
		}
		for _, f := range []string{"projectors", "basis"} {
			for _, st := range StoresTo(fn, dsp, f) {
				u := uf{}
				for _, ci := range controllingIfs(st.Block()) {
					bo, ok := ci.If.Cond.(*ssa.BinOp)
					if !ok {
						continue
					}
					if (bo.Op == token.NEQ && ci.Branch == 1) || (bo.Op == token.EQL && ci.Branch == 0) {
						if call := errCall(bo.X); call != nil {
							// `if err := checkDims(...); err != nil { return err }`: what the helper
							// established on its way to returning nil, in this function's names
							for _, eq := range c13HelperEqualities(c, call) {
								u.union(eq[0], eq[1])
							}
							continue
						}
						u.union(c13Name(c, bo.X), c13Name(c, bo.Y))
					}
				}
				ns := recv + ".NSamples"
				need := [][2]string{{pP + ".cols", ns}, {pB + ".rows", ns}, {pB + ".cols", pP + ".rows"}}
				var missing []string
				for _, n := range need {
					if u.find(n[0]) != u.find(n[1]) {
						missing = append(missing, n[0]+" = "+n[1])
					}
				}
				r.Check(len(missing) == 0 && pP != "" && pB != "", "C13.R1", FuncName(fn)+" installs "+f+" only when shapes agree", p.InstrPos(st),
					"projectors.cols = NSamples, basis.rows = NSamples, basis.cols = projectors.rows hold on every path to the store",
					"the matrices are installed without establishing "+strings.Join(missing, ", ")+": model coefficients / residuals are then computed with mismatched shapes (panic or garbage)")
			}
		}
	}
}

// c13HelperEqualities: the equalities a validation helper established whenever it returns a nil
// error (its only nil return is reached through them), with the helper's parameters replaced by
// the caller's names of the arguments.
func c13HelperEqualities(c *PolyCtx, call *ssa.Call) [][2]string {
	h := call.Call.StaticCallee()
	if !isModuleFn(h) || len(h.Params) != len(call.Call.Args) {
		return nil
	}
	var nilRet *ssa.Return
	n := 0
	Instrs(h, func(in ssa.Instruction) {
		ret, ok := in.(*ssa.Return)
		if !ok || len(ret.Results) == 0 {
			return
		}
		last := ret.Results[len(ret.Results)-1]
		if k, isC := last.(*ssa.Const); isC && k.Value == nil {
			nilRet = ret
			n++
		} else if !definitelyNonNilError(last) {
			n += 2
		}
	})
	if n != 1 {
		return nil
	}
	hc := NewPolyCtx(h)
	tr := func(name string) string {
		for i, prm := range h.Params {
			arg := call.Call.Args[i]
			if name == prm.Name() {
				return c13Name(c, arg)
			}
			if strings.HasPrefix(name, prm.Name()+".") {
				if ap, ok := stripConv(arg).(*ssa.Parameter); ok {
					return ap.Name() + strings.TrimPrefix(name, prm.Name())
				}
			}
		}
		return "?" + name
	}
	var out [][2]string
	for _, ci := range controllingIfs(nilRet.Block()) {
		bo, ok := ci.If.Cond.(*ssa.BinOp)
		if !ok {
			continue
		}
		if (bo.Op == token.NEQ && ci.Branch == 1) || (bo.Op == token.EQL && ci.Branch == 0) {
			out = append(out, [2]string{tr(c13Name(hc, bo.X)), tr(c13Name(hc, bo.Y))})
		}
	}
	return out
}

// ---- R2 -----------------------------------------------------------------------------------

func c13R2(p *Prog, r *Report) { c13R2As(p, r, "C13.R2") }

func c13R2As(p *Prog, r *Report, rule string) {
	dsp := "DataStreamProcessor"
	var remove *ssa.Function
	// the remover: method that resets both matrices (calls Reset on loads of projectors and basis)
	for _, fn := range p.LibFuncs() {
		if fn.Signature.Recv() == nil || typeName(fn.Signature.Recv().Type()) != dsp {
			continue
		}
		resets := map[string]bool{}
		Instrs(fn, func(in ssa.Instruction) {
			cc := CallOf(in)
			if cc == nil || !strings.HasSuffix(CalleeName(cc), "mat.Dense).Reset") {
				return
			}
			if _, f, _, ok := FieldOf(cc.Args[0]); ok {
				resets[f] = true
			}
		})
		if resets["projectors"] && resets["basis"] {
			remove = fn
		}
	}
	if remove == nil {
		r.Bad(rule, "projector remover", "-", "no method resets both projectors and basis")
		return
	}
	n := 0
	for _, fn := range p.LibFuncs() {
		for _, st := range StoresTo(fn, dsp, "NSamples") {
			if _, isP := addrRoot(st.Addr).(*ssa.Parameter); !isP {
				continue // constructing a new processor
			}
			n++
			r.Fn(FuncName(fn))
			c := NewPolyCtx(fn)
			newv := c.Of(st.Val)
			path, _ := c.accessPath(st.Addr)
			isRemove := func(in ssa.Instruction) bool {
				cc := CallOf(in)
				return cc != nil && cc.StaticCallee() == remove
			}
			// DFS over (block, unchangedFact) avoiding the remover
			type state struct {
				b    *ssa.BasicBlock
				fact bool
				from *ssa.BasicBlock
			}
			seen := map[state]bool{}
			violated := false
			var walkFrom func(b *ssa.BasicBlock, fact bool, from *ssa.BasicBlock)
			walkFrom = func(b *ssa.BasicBlock, fact bool, from *ssa.BasicBlock) {
				s := state{b, fact, from}
				if seen[s] || violated {
					return
				}
				seen[s] = true
				for _, in := range b.Instrs {
					if isRemove(in) {
						return
					}
					if in == ssa.Instruction(st) {
						if !fact {
							violated = true
						}
						return
					}
				}
				if iff, ok := b.Instrs[len(b.Instrs)-1].(*ssa.If); ok {
					// a condition merged from several tests (a && b kept in a variable): on the way in
					// from a test that already failed it is the constant false, only one way out
					if k := decidedOnEdge(iff.Cond, b, from); k >= 0 {
						walkFrom(b.Succs[k], fact, b)
						return
					}
					eq := -1 // successor index on which old == new is established
					if bo, ok := iff.Cond.(*ssa.BinOp); ok && (bo.Op == token.NEQ || bo.Op == token.EQL) {
						x, y := c.Of(bo.X), c.Of(bo.Y)
						isOld := func(q Poly) bool { return basePath(q.String()) == path && !strings.Contains(q.String(), "{") }
						if (isOld(x) && y.Equal(newv)) || (isOld(y) && x.Equal(newv)) {
							if bo.Op == token.NEQ {
								eq = 1
							} else {
								eq = 0
							}
						}
					}
					for i, s := range b.Succs {
						walkFrom(s, fact || i == eq, b)
					}
					return
				}
				for _, s := range b.Succs {
					walkFrom(s, fact, b)
				}
			}
			walkFrom(fn.Blocks[0], false, nil)
			r.Check(!violated, rule, FuncName(fn)+" drops projectors when the record length changes", p.InstrPos(st),
				"every path to the store passes the remover or the 'length unchanged' edge",
				"the record length can change while projectors/basis validated for the old length stay installed: the next record makes the projection panic (or silently mis-project) in the block-processing goroutine")
		}
	}
	if n == 0 {
		r.Bad(rule, "record-length writers", "-", "no function changes the record length of an existing processor")
	}
}

// ---- R3, R4, R5 ---------------------------------------------------------------------------

// depSlice computes, flow-insensitively, the set of struct-field loads ("Owner.field") and
// parameters a value may depend on, following data dependence through SSA operands, through the
// memory of local allocations (stores and calls that take their address) and through call results.
type depCtx struct {
	fn      *ssa.Function
	memo    map[ssa.Value]map[string]bool
	writers map[string][]ssa.Value // memory object -> values that may flow into it
	ids     map[ssa.Value]int
	depth   int // nesting of helper summaries
	// followCalls: results of module helpers also depend on what the helpers read (set for the
	// analysis function itself, not for the callers that supply its arguments)
	followCalls bool
}

func isRefLike(t types.Type) bool {
	switch t.Underlying().(type) {
	case *types.Slice, *types.Pointer, *types.Map:
		return true
	}
	return false
}

// objKey names the memory object a reference-like value designates: a local allocation, a
// make([]T) site, or "fld:Owner.field" for storage reached through a struct field.
func (d *depCtx) objKey(v ssa.Value) string {
	for i := 0; i < 8; i++ {
		switch x := v.(type) {
		case *ssa.Slice:
			v = x.X
			continue
		case *ssa.ChangeType:
			v = x.X
			continue
		case *ssa.FieldAddr, *ssa.IndexAddr:
			v = addrRoot(v)
			if _, isA := v.(*ssa.Alloc); !isA {
				if u, ok := v.(*ssa.UnOp); ok {
					v = u
					continue
				}
				return ""
			}
			continue
		case *ssa.Alloc, *ssa.MakeSlice:
			if _, ok := d.ids[v]; !ok {
				d.ids[v] = len(d.ids) + 1
			}
			return fmt.Sprintf("obj#%d", d.ids[v])
		case *ssa.UnOp:
			if x.Op == token.MUL {
				if o, f, _, ok := FieldOf(x); ok {
					if _, fresh := addrRoot(x.X).(*ssa.Alloc); fresh {
						v = addrRoot(x.X)
						continue
					}
					return "fld:" + o + "." + f
				}
			}
			return ""
		default:
			return ""
		}
	}
	return ""
}

func newDepCtx(fn *ssa.Function) *depCtx {
	d := &depCtx{fn: fn, memo: map[ssa.Value]map[string]bool{}, writers: map[string][]ssa.Value{}, ids: map[ssa.Value]int{}}
	Instrs(fn, func(in ssa.Instruction) {
		switch x := in.(type) {
		case *ssa.Store:
			if k := d.objKey(x.Addr); k != "" {
				d.writers[k] = append(d.writers[k], x.Val)
			}
			// storing a reference into a field links the field's storage to the referenced object
			if o, f, _, ok := FieldOf(x.Addr); ok && isRefLike(x.Val.Type()) {
				d.writers["fld:"+o+"."+f] = append(d.writers["fld:"+o+"."+f], x.Val)
			} else if fa, isFA := x.Addr.(*ssa.FieldAddr); isFA && isRefLike(x.Val.Type()) {
				k := "fld:" + ownerName(fa.X.Type()) + "." + derefStruct(fa.X.Type()).Field(fa.Field).Name()
				d.writers[k] = append(d.writers[k], x.Val)
			}
		case ssa.CallInstruction:
			cc := x.Common()
			args := cc.Args
			if cc.IsInvoke() {
				args = append([]ssa.Value{cc.Value}, args...)
			}
			for _, a := range args {
				if !isRefLike(a.Type()) {
					continue
				}
				if k := d.objKey(a); k != "" {
					for _, b := range args {
						if b != a {
							d.writers[k] = append(d.writers[k], b)
						}
					}
				}
			}
		}
	})
	return d
}

func (d *depCtx) deps(v ssa.Value) map[string]bool {
	if m, ok := d.memo[v]; ok {
		return m
	}
	m := map[string]bool{}
	d.memo[v] = m
	add := func(o map[string]bool) {
		for k := range o {
			m[k] = true
		}
	}
	obj := func(k string) {
		if k == "" {
			return
		}
		for _, w := range d.writers[k] {
			add(d.deps(w))
		}
	}
	switch x := v.(type) {
	case *ssa.Parameter:
		m["param:"+x.Name()] = true
	case *ssa.Const, *ssa.Function, *ssa.Global, *ssa.Builtin:
	case *ssa.Alloc, *ssa.MakeSlice:
		obj(d.objKey(v))
		if mk, ok := v.(*ssa.MakeSlice); ok {
			add(d.deps(mk.Len))
		}
	case *ssa.UnOp:
		if x.Op == token.MUL {
			if o, f, _, ok := FieldOf(x); ok {
				if _, fresh := addrRoot(x.X).(*ssa.Alloc); !fresh {
					m[o+"."+f] = true
				}
			}
			if k := d.objKey(x); k != "" && isRefLike(x.Type()) {
				obj(k)
			}
			if a, ok := addrRoot(x.X).(*ssa.Alloc); ok {
				add(d.deps(a))
			} else {
				add(d.deps(x.X))
			}
		} else {
			add(d.deps(x.X))
		}
	default:
		if in, ok := v.(ssa.Instruction); ok {
			var ops []*ssa.Value
			for _, o := range in.Operands(ops) {
				if *o != nil {
					add(d.deps(*o))
				}
			}
		}
		// what a module helper returns (or writes into what it is handed) also depends on what the
		// helper itself reads: `samples = recordSamples(buf, rec)` depends on rec.data
		if call, ok := v.(*ssa.Call); ok && d.depth < 2 && d.followCalls {
			if g := call.Call.StaticCallee(); isModuleFn(g) && !call.Call.IsInvoke() && len(g.Blocks) > 0 && len(g.Params) == len(call.Call.Args) && g != d.fn {
				cd := newDepCtx(g)
				cd.depth = d.depth + 1
				cd.followCalls = true
				sub := map[string]bool{}
				Instrs(g, func(in ssa.Instruction) {
					switch x := in.(type) {
					case *ssa.Return:
						for _, rv := range x.Results {
							for k := range cd.closure(rv) {
								sub[k] = true
							}
						}
					case *ssa.Store:
						if al, isAl := addrRoot(x.Addr).(*ssa.Alloc); isAl && !al.Heap {
							return
						}
						for k := range cd.closure(x.Val) {
							sub[k] = true
						}
					}
				})
				for k := range sub {
					if strings.HasPrefix(k, "param:") {
						for i, q := range g.Params {
							// (a reference parameter stands for an object: what the helper reads of it
							// is already recorded field by field)
							if "param:"+q.Name() == k && !isRefLike(q.Type()) {
								add(d.deps(call.Call.Args[i]))
							}
						}
						continue
					}
					m[k] = true
				}
			}
		}
	}
	return m
}

func (d *depCtx) closure(v ssa.Value) map[string]bool {
	// memoisation cuts cycles short; iterate with a fresh memo until the result is stable
	prev := -1
	var m map[string]bool
	for i := 0; i < 8; i++ {
		if i > 0 {
			// keep previous results as a warm start: re-evaluating with them enlarges the sets monotonically
			old := d.memo
			d.memo = map[ssa.Value]map[string]bool{}
			m = d.deps(v)
			for k, o := range old {
				if cur, ok := d.memo[k]; ok {
					for x := range o {
						cur[x] = true
					}
				}
			}
			m = d.memo[v]
		} else {
			m = d.deps(v)
		}
		if len(m) == prev {
			break
		}
		prev = len(m)
	}
	return m
}

func c13R3R4R5(p *Prog, r *Report) {
	rec := p.NamedType("", "DataRecord")
	if rec == nil {
		r.Unk("C13.R4", "DataRecord", "-", "type not found")
		return
	}
	analysis := map[string][]string{ // field -> required dependences (any field name suffix)
		"pretrigMean":    {"DataRecord.presamples", "DataRecord.data"},
		"pretrigDelta":   {"DataRecord.presamples", "DataRecord.data"},
		"pulseAverage":   {"DataRecord.presamples", "DataRecord.data"},
		"pulseRMS":       {"DataRecord.presamples", "DataRecord.data"},
		"peakValue":      {"DataRecord.presamples", "DataRecord.data"},
		"modelCoefs":     {"DataStreamProcessor.projectors", "DataRecord.data"},
		"residualStdDev": {"DataStreamProcessor.basis", "DataStreamProcessor.projectors", "DataRecord.data"},
	}
	forbidden := []string{"DataStreamProcessor.NPresamples", "DataStreamProcessor.NSamples", "EMTState.nsamp", "EMTState.npre"}
	nfn := 0
	for _, fn := range p.LibFuncs() {
		stores := map[string][]*ssa.Store{}
		for f := range analysis {
			for _, st := range StoresTo(fn, rec.Obj().Name(), f) {
				if _, fresh := addrRoot(st.Addr).(*ssa.Alloc); fresh {
					continue // building a new record, not analysing one
				}
				stores[f] = append(stores[f], st)
			}
		}
		if len(stores) == 0 {
			continue
		}
		nfn++
		r.Fn(FuncName(fn))
		d := newDepCtx(fn)
		d.followCalls = true
		var fields []string
		for f := range stores {
			fields = append(fields, f)
		}
		sort.Strings(fields)
		loops := RangeLoops(fn)
		for _, f := range fields {
			for _, st := range stores[f] {
				if cst, isC := st.Val.(*ssa.Const); isC && cst.Value != nil {
					continue
				}
				if call, isCall := st.Val.(*ssa.Call); isCall && CalleeName(&call.Call) == "math.NaN" {
					continue
				}
				dep := d.closure(st.Val)
				for _, w := range d.writers["fld:"+rec.Obj().Name()+"."+f] {
					for k := range d.closure(w) {
						dep[k] = true
					}
				}
				// a helper computing the values from what it is given: what its parameters stand
				// for at its call sites counts too
				c13ExpandParams(p, fn, dep, 2)
				var missing, extra []string
				for _, need := range analysis[f] {
					if !dep[need] {
						missing = append(missing, need)
					}
				}
				for _, fb := range forbidden {
					if dep[fb] {
						extra = append(extra, fb)
					}
				}
				msg := ""
				if len(missing) > 0 {
					msg += "does not depend on " + strings.Join(missing, ", ") + " (its definition does)"
				}
				if len(extra) > 0 {
					if msg != "" {
						msg += "; "
					}
					msg += "depends on the per-channel setting " + strings.Join(extra, ", ") + " instead of the record's own lengths (variable-length and secondary records differ from the channel setting)"
				}
				r.Check(msg == "", "C13.R4", FuncName(fn)+" "+f, p.InstrPos(st), "depends on "+strings.Join(analysis[f], ", ")+" and on no per-channel length", f+" "+msg)
				// R5: slices stored into the record are fresh in this iteration
				if _, isSlice := st.Val.Type().Underlying().(*types.Slice); isSlice {
					mk, fresh := st.Val.(*ssa.MakeSlice)
					inLoop := false
					if fresh {
						if l := LoopContaining(loops, mk); l != nil && l.Contains(st.Block()) {
							inLoop = true
						}
						if len(loops) == 0 {
							inLoop = true
						}
						// a per-record helper: the record is a parameter, the slice is made once per call
						if _, isPrm := addrRoot(st.Addr).(*ssa.Parameter); isPrm && LoopContaining(loops, mk) == nil {
							inLoop = true
						}
					}
					r.Check(fresh && inLoop, "C13.R5", FuncName(fn)+" "+f+" is a fresh slice", p.InstrPos(st), "allocated per record",
						"the slice stored in the record is not allocated afresh for this record (it aliases storage that the next record's computation overwrites, so all records of a block end up with the last record's values)")
				}
			}
		}
		// R3: sample -> float64 conversions, here or in a helper that is handed the record
		r3hosts := []*ssa.Function{fn}
		Instrs(fn, func(in ssa.Instruction) {
			if cc := CallOf(in); cc != nil && !cc.IsInvoke() {
				if h := cc.StaticCallee(); isModuleFn(h) && h != fn && len(h.Blocks) > 0 {
					for _, q := range h.Params {
						if typeName(q.Type()) == rec.Obj().Name() {
							r3hosts = append(r3hosts, h)
						}
					}
				}
			}
		})
		for _, r3fn := range r3hosts {
			if r3fn != fn {
				r.Fn(FuncName(r3fn))
			}
			Instrs(r3fn, func(in ssa.Instruction) {
				cv, ok := in.(*ssa.Convert)
				if !ok {
					return
				}
				if b, ok := cv.Type().Underlying().(*types.Basic); !ok || b.Kind() != types.Float64 {
					return
				}
				// operand derives from an element of rec.data?
				src := cv.X
				viaInt16 := false
				if c2, ok := src.(*ssa.Convert); ok {
					if b, ok := c2.Type().Underlying().(*types.Basic); ok && b.Kind() == types.Int16 {
						viaInt16 = true
						src = c2.X
					}
				}
				isSample := false
				if ld, ok := src.(*ssa.UnOp); ok && ld.Op == token.MUL {
					if ia, ok := ld.X.(*ssa.IndexAddr); ok {
						if _, f, _, ok := FieldOf(ia.X); ok && f == "data" {
							isSample = true
						}
					}
				}
				if e, ok := src.(*ssa.Extract); ok { // range value
					if nx, ok := e.Tuple.(*ssa.Next); ok {
						if rg, ok := nx.Iter.(*ssa.Range); ok {
							if _, f, _, ok := FieldOf(rg.X); ok && f == "data" {
								isSample = true
							}
						}
					}
				}
				if !isSample {
					return
				}
				good := false
				for _, ci := range controllingIfs(cv.Block()) {
					if _, f, _, ok := FieldOf(ci.If.Cond); ok && f == "signed" {
						if (ci.Branch == 0) == viaInt16 {
							good = true
						}
					}
				}
				arm := "unsigned"
				if viaInt16 {
					arm = "signed (through int16)"
				}
				r.Check(good, "C13.R3", FuncName(r3fn)+" "+arm+" sample conversion", p.InstrPos(cv), "under the matching arm of the record's signed flag",
					"a record sample is converted to float64 as "+arm+" without being on the matching arm of a test of the record's signed flag: signed channels are analysed as unsigned or vice versa")
			})
		}
	}
	if nfn == 0 {
		r.Bad("C13.R4", "analysis function", "-", "no function stores the per-record analysis values")
	}
}

// ---- R6: each quantity reads the samples of its own part of the record ----------------------

// c13R6: the definitions split a record at its pre-trigger count: pretrigMean / pretrigDelta are
// functions of samples [0, presamples), peakValue / pulseAverage / pulseRMS of samples
// [presamples, len) (and of the pre-trigger mean).  For every such store the backward SSA slice
// of the stored value (cut at the pre-trigger mean) is searched for reads of the record's
// float vector: each must be an element read whose index is a counting-loop variable starting
// at 0 (pre) / at the record's presamples (post); a whole-vector read (Max, Sum, Norm ...) or
// an element read over another range is reported.
func c13R6(p *Prog, r *Report) {
	rec := p.NamedType("", "DataRecord")
	if rec == nil {
		return
	}
	part := map[string]string{"pretrigMean": "pre", "pretrigDelta": "pre", "peakValue": "post", "pulseAverage": "post", "pulseRMS": "post"}
	for _, fn := range p.LibFuncs() {
		stores := map[string]*ssa.Store{}
		for f := range part {
			for _, st := range StoresTo(fn, rec.Obj().Name(), f) {
				if _, fresh := addrRoot(st.Addr).(*ssa.Alloc); !fresh {
					stores[f] = st
				}
			}
		}
		if len(stores) == 0 {
			continue
		}
		r.Fn(FuncName(fn))
		// the float vector of the record: allocs of a VecDense passed to calls
		isVec := func(v ssa.Value) bool {
			if mi, ok := v.(*ssa.MakeInterface); ok {
				v = mi.X
			}
			if prm, ok := v.(*ssa.Parameter); ok {
				return strings.HasSuffix(derefType(prm.Type()).String(), "mat.VecDense")
			}
			a, ok := v.(*ssa.Alloc)
			return ok && strings.HasSuffix(derefType(a.Type()).String(), "mat.VecDense")
		}
		var ptm ssa.Value
		if st := stores["pretrigMean"]; st != nil {
			ptm = st.Val
		}
		// frame: parameters of the helpers the computation passes through, as the caller's values
		frame := map[*ssa.Parameter]ssa.Value{}
		frameClash := ""
		resolve := func(v ssa.Value) ssa.Value {
			for i := 0; i < 6; i++ {
				v = stripConv(v)
				prm, ok := v.(*ssa.Parameter)
				if !ok {
					break
				}
				a, ok := frame[prm]
				if !ok {
					break
				}
				v = a
			}
			return v
		}
		isPresamples := func(v ssa.Value) bool {
			v = resolve(v)
			o, f, _, ok := FieldOf(v)
			return ok && o == rec.Obj().Name() && f == "presamples"
		}
		longCopy := "" // a sample copy whose length is not shown to be the record's
		// sampleSlice: v is the record's raw sample slice (rec.data, possibly handed to a helper),
		// whole or as one window [lo, hi)
		var sampleSlice func(v ssa.Value, depth int) (ok bool, lo, hi ssa.Value, win bool)
		sampleSlice = func(v ssa.Value, depth int) (bool, ssa.Value, ssa.Value, bool) {
			v = resolve(v)
			if depth > 3 {
				return false, nil, nil, false
			}
			if sl, isSl := v.(*ssa.Slice); isSl {
				ok, _, _, win := sampleSlice(sl.X, depth+1)
				if !ok || win {
					return false, nil, nil, false
				}
				return true, sl.Low, sl.High, true
			}
			if o, f, _, ok := FieldOf(v); ok && o == rec.Obj().Name() && f == "data" {
				return true, nil, nil, false
			}
			// a float copy of the record's samples made by a helper (same positions, same length)
			if call, isCall := v.(*ssa.Call); isCall {
				if isCopy, lenOK := c13SampleCopy(call, rec.Obj().Name()); isCopy {
					if !lenOK {
						longCopy = p.InstrPos(call)
					}
					return true, nil, nil, false
				}
			}
			return false, nil, nil, false
		}
		var names []string
		for f := range stores {
			names = append(names, f)
		}
		sort.Strings(names)
		for _, f := range names {
			st := stores[f]
			want := part[f]
			bad := ""
			nread := 0
			seen := map[ssa.Value]bool{}
			narrowAt := ""
			var walk func(v ssa.Value)
			walk = func(v ssa.Value) {
				if v == nil || seen[v] || bad != "" {
					return
				}
				seen[v] = true
				if bo, isBo := v.(*ssa.BinOp); isBo && narrowAt == "" {
					if bt, isB := bo.Type().Underlying().(*types.Basic); isB && bt.Info()&types.IsInteger != 0 {
						switch bt.Kind() {
						case types.Int8, types.Uint8, types.Int16, types.Uint16:
							switch bo.Op {
							case token.ADD, token.SUB, token.MUL, token.SHL:
								narrowAt = fmt.Sprintf("%s (%s of %s values)", p.InstrPos(bo), bo.Op, bo.Type())
							}
						}
					}
				}
				if want == "post" && ptm != nil && v == ptm {
					return // the pre-trigger mean enters the post-trigger quantities by definition
				}
				// a window of the vector's raw storage, vec.RawVector().Data[lo:hi]: a read of exactly
				// the samples lo..hi-1
				if sl, ok := v.(*ssa.Slice); ok {
					var raw *ssa.Call
					switch b := sl.X.(type) {
					case *ssa.Field:
						raw, _ = b.X.(*ssa.Call)
					case *ssa.UnOp:
						if fa, isFA := b.X.(*ssa.FieldAddr); isFA && b.Op == token.MUL {
							if al, isAl := fa.X.(*ssa.Alloc); isAl {
								for _, ref := range *al.Referrers() {
									if st2, isSt := ref.(*ssa.Store); isSt && st2.Addr == ssa.Value(al) {
										raw, _ = st2.Val.(*ssa.Call)
									}
								}
							}
						}
					}
					if raw != nil && strings.HasSuffix(CalleeName(&raw.Call), ".RawVector") && len(raw.Call.Args) > 0 && isVec(raw.Call.Args[0]) {
						nread++
						loZero := sl.Low == nil
						if sl.Low != nil {
							if k, isC := constInt(sl.Low); isC && k == 0 {
								loZero = true
							}
						}
						switch want {
						case "pre":
							if !(loZero && sl.High != nil && isPresamples(sl.High)) {
								bad = fmt.Sprintf("read of a window of the raw samples at %s that is not [0, presamples)", p.InstrPos(sl))
							}
						case "post":
							if !(sl.Low != nil && isPresamples(sl.Low) && sl.High == nil) {
								bad = fmt.Sprintf("read of a window of the raw samples at %s that is not [presamples, len)", p.InstrPos(sl))
							}
						}
						return
					}
				}
				// an element of the record's own sample slice (possibly inside a helper it was handed to)
				if ia, ok := v.(*ssa.IndexAddr); ok {
					if isS, lo, hi, win := sampleSlice(ia.X, 0); isS {
						nread++
						zero := func(x ssa.Value) bool {
							if x == nil {
								return true
							}
							k, isC := constInt(resolve(x))
							return isC && k == 0
						}
						idx := resolve(ia.Index)
						ph, _ := idx.(*ssa.Phi)
						startsAt := func(pred func(ssa.Value) bool) bool {
							if ph == nil {
								return false
							}
							for i, e := range ph.Edges {
								if !ph.Block().Dominates(ph.Block().Preds[i]) && !pred(e) {
									return false
								}
							}
							return true
						}
						switch want {
						case "pre":
							switch {
							case win && zero(lo) && hi != nil && isPresamples(hi):
							case !win && zero(idx) && idx != nil:
							case !win && startsAt(func(e ssa.Value) bool { return zero(e) && e != nil }):
								okRange := false
								for _, ref := range *ph.Referrers() {
									if bo, ok := ref.(*ssa.BinOp); ok && bo.Op == token.LSS && bo.X == ssa.Value(ph) && isPresamples(bo.Y) {
										okRange = true
									}
								}
								if !okRange {
									bad = fmt.Sprintf("element read at %s whose index does not run over [0, presamples)", p.InstrPos(ia))
								}
							default:
								bad = fmt.Sprintf("read of the raw samples at %s that is not confined to [0, presamples)", p.InstrPos(ia))
							}
						case "post":
							switch {
							case win && lo != nil && isPresamples(lo) && hi == nil:
							case !win && startsAt(isPresamples):
							default:
								bad = fmt.Sprintf("read of the raw samples at %s that is not confined to [presamples, len)", p.InstrPos(ia))
							}
						}
						return
					}
				}
				// the result of a module helper: what it returns, with its parameters bound to the arguments
				{
					var call *ssa.Call
					ri := 0
					switch x := v.(type) {
					case *ssa.Call:
						call = x
					case *ssa.Extract:
						call, _ = x.Tuple.(*ssa.Call)
						ri = x.Index
					}
					if call != nil {
						usesVec := false
						for _, a := range call.Call.Args {
							if isVec(a) {
								usesVec = true
							}
						}
						if h := call.Call.StaticCallee(); !usesVec && !call.Call.IsInvoke() && isModuleFn(h) && len(h.Blocks) > 0 && len(h.Params) == len(call.Call.Args) && h != fn {
							for i, prm := range h.Params {
								if old, had := frame[prm]; had && old != call.Call.Args[i] {
									frameClash = FuncName(h)
								}
								frame[prm] = call.Call.Args[i]
							}
							Instrs(h, func(in ssa.Instruction) {
								if ret, ok := in.(*ssa.Return); ok && ri < len(ret.Results) {
									walk(ret.Results[ri])
								}
							})
							// (the arguments are walked as well: a window of the samples may be what is handed in)
						}
					}
				}
				if c, ok := v.(*ssa.Call); ok {
					usesVec := false
					args := c.Call.Args
					for _, a := range args {
						if isVec(a) {
							usesVec = true
						}
					}
					if usesVec {
						nread++
						name := CalleeName(&c.Call)
						if !strings.HasSuffix(name, ".AtVec") && !strings.HasSuffix(name, ".At") {
							bad = fmt.Sprintf("whole-vector read %s at %s", shortName(name), p.InstrPos(c))
							return
						}
						idx := stripConv(args[1])
						switch want {
						case "post":
							ph, isPhi := idx.(*ssa.Phi)
							okStart := false
							if isPhi {
								for i, e := range ph.Edges {
									if !ph.Block().Dominates(ph.Block().Preds[i]) && isPresamples(e) {
										okStart = true
									}
								}
							}
							if !okStart {
								bad = fmt.Sprintf("element read at %s whose index does not start at the record's presamples", p.InstrPos(c))
							}
						case "pre":
							if k, isC := constInt(idx); isC && k == 0 {
								return
							}
							ph, isPhi := idx.(*ssa.Phi)
							okRange := false
							if isPhi {
								start0 := false
								for i, e := range ph.Edges {
									if !ph.Block().Dominates(ph.Block().Preds[i]) {
										if k, isC := constInt(e); isC && k == 0 {
											start0 = true
										}
									}
								}
								// loop condition phi < presamples
								for _, ref := range *ph.Referrers() {
									if bo, ok := ref.(*ssa.BinOp); ok && bo.Op == token.LSS && bo.X == ssa.Value(ph) && isPresamples(bo.Y) && start0 {
										okRange = true
									}
								}
							}
							if !okRange {
								bad = fmt.Sprintf("element read at %s whose index does not run over [0, presamples)", p.InstrPos(c))
							}
						}
						return
					}
				}
				if in, ok := v.(ssa.Instruction); ok {
					var ops []*ssa.Value
					for _, o := range in.Operands(ops) {
						if *o != nil {
							walk(*o)
						}
					}
				}
			}
			walk(st.Val)
			if frameClash != "" {
				r.Unk("C13.R6", FuncName(fn)+" "+f+" reads only samples", p.InstrPos(st), "the computation passes through "+frameClash+" more than once with different arguments; the sample ranges are not followed there")
				continue
			}
			if bad == "" && nread == 0 {
				bad = "no read of the record's samples found in the value's computation"
			}
			if bad == "" && longCopy != "" && want == "post" {
				bad = "read of a copy of the samples (made at " + longCopy + ") whose length is not the record's own: reused for records of different lengths it still holds the tail of an earlier, longer record, and the window [presamples, len) then takes in"
			}
			r.Check(narrowAt == "", "C13.R8", FuncName(fn)+" "+f+" is computed without 16-bit arithmetic on samples", p.InstrPos(st),
				"samples are widened (to float64 or a wider integer) before any sum, difference or product",
				f+" is computed with arithmetic carried out in a 16-bit (or narrower) integer type at "+narrowAt+": the result wraps modulo 65536 as soon as the operands are more than half of full scale apart (a baseline step, a large pulse), so the quantity is wrong for such records")
			rng := "[presamples, len)"
			if want == "pre" {
				rng = "[0, presamples)"
			}
			r.Check(bad == "", "C13.R6", FuncName(fn)+" "+f+" reads only samples "+rng, p.InstrPos(st), fmt.Sprintf("%d element reads, all over %s", nread, rng),
				f+" is defined over samples "+rng+" of the record, but its computation contains a "+bad+": samples of the other part of the record (a spike or pile-up tail before the trigger, or the pulse itself for pre-trigger quantities) change the value")
		}
	}
}

// c13ExpandParams adds to dep what the parameters of fn named in it ("param:x") depend on at
// fn's static call sites in the library (levels of callers).
func c13ExpandParams(p *Prog, fn *ssa.Function, dep map[string]bool, levels int) {
	if levels == 0 {
		return
	}
	for i, prm := range fn.Params {
		if !dep["param:"+prm.Name()] {
			continue
		}
		for _, caller := range p.LibFuncs() {
			var d *depCtx
			Instrs(caller, func(in ssa.Instruction) {
				cc := CallOf(in)
				if cc == nil || cc.StaticCallee() != fn || i >= len(cc.Args) {
					return
				}
				if d == nil {
					d = newDepCtx(caller)
				}
				sub := d.closure(cc.Args[i])
				c13ExpandParams(p, caller, sub, levels-1)
				for k := range sub {
					if !strings.HasPrefix(k, "param:") {
						dep[k] = true
					}
				}
			})
		}
	}
}

// ---- R7: no truncating integer division inside a summary quantity ------------------------------

// c13R7: the summary quantities are real-valued functions of the samples and of the counts
// (presamples, record length).  An integer division in the computation of one of them truncates
// unless the dividend is always a multiple of the divisor.  For each integer `a / k` (k a
// constant) in the backward slice of a stored summary quantity - also inside the module helpers
// the value comes from - the dividend is normalised to a polynomial; when it has one unknown, it
// is evaluated at 0..47: a value that k does not divide is a witness that the quotient is
// truncated (reported); none means the division is exact; more unknowns are left undecided.
func c13R7(p *Prog, r *Report) {
	rec := p.NamedType("", "DataRecord")
	if rec == nil {
		return
	}
	fields := []string{"pretrigMean", "pretrigDelta", "peakValue", "pulseAverage", "pulseRMS", "residualStdDev"}
	n := 0
	for _, fn := range p.LibFuncs() {
		for _, f := range fields {
			for _, st := range StoresTo(fn, rec.Obj().Name(), f) {
				if _, fresh := addrRoot(st.Addr).(*ssa.Alloc); fresh {
					continue
				}
				n++
				bad, unk := "", ""
				seen := map[ssa.Value]bool{}
				var walk func(v ssa.Value, host *ssa.Function, depth int)
				walk = func(v ssa.Value, host *ssa.Function, depth int) {
					if v == nil || seen[v] || bad != "" {
						return
					}
					seen[v] = true
					if bo, ok := v.(*ssa.BinOp); ok && bo.Op == token.QUO && isIntLike(bo.Type()) {
						if k, isC := constInt(bo.Y); isC && k > 1 {
							pc := NewPolyCtx(host)
							dv := pc.Of(bo.X)
							syms := dv.Symbols()
							switch {
							case len(syms) == 0:
							case len(syms) == 1 && (!strings.Contains(syms[0], "(") || strings.HasPrefix(syms[0], "len(")):
								for x := int64(0); x < 48 && bad == ""; x++ {
									val := int64(0)
									for mono, co := range dv {
										term := co
										if mono != "" {
											for range strings.Split(mono, "*") {
												term *= x
											}
										}
										val += term
									}
									if val%k != 0 {
										bad = fmt.Sprintf("the integer division `%s / %d` at %s truncates (for %s = %d the dividend is %d)", dv.String(), k, p.InstrPos(bo), syms[0], x, val)
									}
								}
							default:
								if unk == "" {
									unk = fmt.Sprintf("integer division `%s / %d` at %s: not decided whether it is exact", dv.String(), k, p.InstrPos(bo))
								}
							}
						}
					}
					switch x := v.(type) {
					case *ssa.Extract:
						// the one result taken from a helper's tuple
						if call, ok := x.Tuple.(*ssa.Call); ok {
							if g := call.Call.StaticCallee(); g != nil && isModuleFn(g) && g.Blocks != nil && depth < 2 && !call.Call.IsInvoke() {
								Instrs(g, func(in ssa.Instruction) {
									if ret, ok := in.(*ssa.Return); ok && x.Index < len(ret.Results) {
										walk(ret.Results[x.Index], g, depth+1)
									}
								})
								for _, a := range call.Call.Args {
									walk(a, host, depth)
								}
								return
							}
						}
						walk(x.Tuple, host, depth)
						return
					case *ssa.Call:
						if g := x.Call.StaticCallee(); g != nil && isModuleFn(g) && g.Blocks != nil && depth < 2 && !x.Call.IsInvoke() {
							Instrs(g, func(in ssa.Instruction) {
								if ret, ok := in.(*ssa.Return); ok {
									for _, res := range ret.Results {
										walk(res, g, depth+1)
									}
								}
							})
						}
					}
					if in, ok := v.(ssa.Instruction); ok {
						for _, o := range in.Operands(nil) {
							if *o != nil {
								walk(*o, host, depth)
							}
						}
					}
				}
				walk(st.Val, fn, 0)
				key := fmt.Sprintf("%s %s: no truncating integer division in its computation", FuncName(fn), f)
				switch {
				case bad != "":
					r.Bad("C13.R7", key, p.InstrPos(st), bad+": the quantity is a real-valued function of the samples and counts, the truncated quotient changes it (or makes a divisor zero) for such records")
				case unk != "":
					r.Unk("C13.R7", key, p.InstrPos(st), unk)
				default:
					r.OK("C13.R7", key, p.InstrPos(st), "no integer division by a constant that can truncate")
				}
			}
		}
	}
	_ = n
}

// c13SampleCopy: the call returns a slice into which the helper has written, position by
// position, a conversion of the samples of the record it was handed (rec.data[i] -> out[i]);
// lenOK: every return hands the slice out with exactly len(rec.data) elements.
func c13SampleCopy(call *ssa.Call, recName string) (isCopy, lenOK bool) {
	h := call.Call.StaticCallee()
	if !isModuleFn(h) || call.Call.IsInvoke() || len(h.Blocks) == 0 {
		return false, false
	}
	if _, isSl := call.Type().Underlying().(*types.Slice); !isSl {
		return false, false
	}
	hasRec := false
	for _, q := range h.Params {
		if typeName(q.Type()) == recName {
			hasRec = true
		}
	}
	if !hasRec {
		return false, false
	}
	// element stores out[i] = f(rec.data[i]) with the same index
	stores, good := 0, true
	Instrs(h, func(in ssa.Instruction) {
		st, ok := in.(*ssa.Store)
		if !ok {
			return
		}
		ia, ok := st.Addr.(*ssa.IndexAddr)
		if !ok {
			return
		}
		if _, isF := ia.X.Type().Underlying().(*types.Slice); !isF {
			return
		}
		stores++
		// the value derives from rec.data at the same index
		same := false
		seen := map[ssa.Value]bool{}
		var walk func(v ssa.Value, d int)
		walk = func(v ssa.Value, d int) {
			if v == nil || seen[v] || d > 8 {
				return
			}
			seen[v] = true
			if ld, isLd := v.(*ssa.UnOp); isLd && ld.Op == token.MUL {
				if src, isIA := ld.X.(*ssa.IndexAddr); isIA && src.Index == ia.Index {
					if o, f, _, okf := FieldOf(src.X); okf && o == recName && f == "data" {
						same = true
					}
				}
			}
			if x, isIn := v.(ssa.Instruction); isIn {
				var ops []*ssa.Value
				for _, o := range x.Operands(ops) {
					walk(*o, d+1)
				}
			}
		}
		walk(st.Val, 0)
		good = good && same
	})
	if stores == 0 || !good {
		return false, false
	}
	// the length handed out
	hc := NewPolyCtx(h)
	lenOK = true
	nret := 0
	Instrs(h, func(in ssa.Instruction) {
		ret, ok := in.(*ssa.Return)
		if !ok || len(ret.Results) == 0 || ret.Block() == h.Recover {
			return
		}
		nret++
		l := hc.lenOf(ret.Results[0])
		okL := false
		if syms := l.Symbols(); len(l) == 1 && len(syms) == 1 && l[syms[0]] == 1 && strings.HasPrefix(syms[0], "len(") && strings.HasSuffix(basePath(strings.TrimSuffix(strings.TrimPrefix(syms[0], "len("), ")")), ".data") {
			okL = true
		}
		lenOK = lenOK && okL
	})
	return true, lenOK && nret > 0
}
