package main

import (
	"fmt"
	"go/constant"
	"go/token"
	"go/types"
	"sort"
	"strings"

	"golang.org/x/tools/go/ssa"
)

func init() {
	register(&RuleSet{
		Property: "C10",
		Explanation: "Decides the path/typestate skeleton of the source life cycle for every path and every data-source implementation: " +
			"(R1) in the start function every error return after the state became Starting resets the state to Inactive, the run-done wait group is balanced on every exit (Add without Done only on the success exit that starts the core loop), and the core loop is started only after the state became Active; " +
			"(R2) the core loop defers the deactivation (state Inactive + WaitGroup.Done) at entry, before any blocking operation, so every exit including panics performs it; " +
			"(R3) Stop: life-cycle state is written only with the state mutex held, every function that locks a mutex releases it exactly once on every path, no blocking operation (WaitGroup.Wait, channel operation) happens with the state mutex held, the abort channel is closed only through the close-once helper (or the same idiom written in place: close in the default arm of a non-blocking receive on that channel) and only with the mutex held, Stop waits for the run-done barrier after releasing the mutex, and the abort / next-block channels are re-made on every start; " +
			"(R4) abort => end-of-data chain: in every looping producer goroutine the abort arm leads on every path to closing the next-block channel or an intermediate channel whose every receiver, having received, either forwards a block or closes the next link before returning; " +
			"(R5) resources acquired by a start step and not released by that step are released on every failing exit of the start sequence. " +
			"Does not decide: deadlock freedom and termination over all interleavings (a model-checking question), goroutine census at run time.",
		RuleDocs: []string{
			"C10.R7 sticky error: a store of a computed error into a field that a start step returns is not under the test `err != nil` of that very value without a store of nil on the other outcome",
			"C10.R1 must-pass-through on the start function: error returns after Starting pass a state->Inactive call; occurrence counts of WaitGroup.Add / Done callers per exit; go <core loop> dominated by the state->Active call",
			"C10.R1 (deferred clean-up) a closure deferred in the start function that aborts / deactivates is installed on the success side of the Starting transition; with such a closure the per-exit barrier balance is undecided",
			"C10.R2 defer of the deactivating call in the entry block of the core loop before any blocking instruction",
			"C10.R3a lockset dataflow: every Lock is released on all paths; stores to the life-cycle state field only with the mutex held",
			"C10.R3b no WaitGroup.Wait / channel send / receive / blocking select while the state mutex is held (intraprocedural + callees to depth 3)",
			"C10.R3c who-may-close the abort channel: only the close-once helper (non-blocking receive guard) or that idiom in place, with the mutex held; Stop: Stopping store and abort close precede the barrier wait",
			"C10.R3d abort and next-block channels are (re)made on every success path of the per-start preparation step",
			"C10.R3e lock re-entrancy: no call under a mutex reaches a Lock of the same mutex of the same object",
			"C10.R3f check-then-act: a store of Starting/Stopping is dominated by a load of the state made in the same critical section (no Unlock between the test and the transition)",
			"C10.R6 every handler path that invokes the data source's Stop passes the refresh of the RPC layer's active flag before returning",
			"C10.R4 abort arm closes the chain; every receiver of an intermediate chain channel forwards or closes before returning",
			"C10.R5 unbalanced acquisitions reachable from a start step vs. releases on the failing exits of that step and of the start function",
		},
		Run: runC10,
	})
}

type c10ctx struct {
	p          *Prog
	r          *Report
	stateType  *types.Named
	stateField string
	setters    map[*ssa.Function]int // state setter -> index of the parameter stored (-1: not a setter)
	lockField  string
	consts     map[string]int64 // Inactive, Starting, Active, Stopping
	core       *ssa.Function
	starter    *ssa.Function
	goCore     *ssa.Go
	dsIface    *types.Named
	anyT       *types.Named
}

func runC10(p *Prog, r *Report) {
	c := &c10ctx{p: p, r: r, consts: map[string]int64{}}
	if !c.anchors() {
		return
	}
	r.MinInstances["C10.R1"] = 6
	r.MinInstances["C10.R2"] = 1
	r.MinInstances["C10.R3a"] = 12
	r.MinInstances["C10.R3c"] = 3
	r.MinInstances["C10.R3d"] = 2
	r.MinInstances["C10.R4"] = 6
	r.MinInstances["C10.R7"] = 1
	c.ruleR1()
	c.ruleR2()
	c.ruleR3()
	c.ruleR4()
	c.ruleR5()
	checkLockReentrancy(p, r, "C10.R3e")
	c.ruleR3f()
	c.ruleR6()
	c.ruleR7()
}

func (c *c10ctx) anchors() bool {
	p, r := c.p, c.r
	c.stateType = p.NamedType("", "SourceState")
	c.anyT = p.NamedType("", "AnySource")
	if c.stateType == nil || c.anyT == nil {
		r.Unk("C10.anchor", "types SourceState/AnySource", "-", "named anchors not found")
		return false
	}
	st := c.anyT.Underlying().(*types.Struct)
	for i := 0; i < st.NumFields(); i++ {
		f := st.Field(i)
		if types.Identical(f.Type(), c.stateType) {
			c.stateField = f.Name()
		}
		if f.Type().String() == "sync.Mutex" {
			c.lockField = f.Name()
		}
	}
	for _, n := range []string{"Inactive", "Starting", "Active", "Stopping"} {
		k, ok := p.Root.Pkg.Scope().Lookup(n).(*types.Const)
		if !ok {
			r.Unk("C10.anchor", "constant "+n, "-", "life-cycle constant not found")
			return false
		}
		v, _ := constant.Int64Val(k.Val())
		c.consts[n] = v
	}
	if c.stateField == "" || c.lockField == "" {
		r.Unk("C10.anchor", "state/lock fields", "-", "AnySource has no SourceState field or no sync.Mutex field")
		return false
	}
	// core loop = function that receives from a chan func(); starter = function with `go core`
	for _, fn := range p.LibFuncs() {
		found := false
		Instrs(fn, func(in ssa.Instruction) {
			if sel, ok := in.(*ssa.Select); ok {
				for _, s := range sel.States {
					if s.Dir == types.RecvOnly && isChanOf(s.Chan.Type(), isFuncVoid) {
						found = true
					}
				}
			}
			if u, ok := in.(*ssa.UnOp); ok && u.Op == token.ARROW && isChanOf(u.X.Type(), isFuncVoid) {
				found = true
			}
		})
		if found {
			if c.core != nil {
				r.Unk("C10.anchor", "core loop", p.Pos(fn.Pos()), "more than one consumer of a chan func()")
				return false
			}
			c.core = fn
		}
	}
	if c.core == nil {
		r.Unk("C10.anchor", "core loop", "-", "no consumer of a chan func()")
		return false
	}
	for _, gs := range p.GoStarts() {
		for _, f := range gs.Callees {
			if f == c.core {
				if c.goCore != nil {
					r.Bad("C10.R1", "second start of the core loop in "+FuncName(gs.In), p.InstrPos(gs.Instr), "the core loop must be started at exactly one place")
				}
				c.goCore, c.starter = gs.Instr, gs.In
			}
		}
	}
	if c.starter == nil {
		r.Unk("C10.anchor", "start function", "-", "no go statement starts the core loop")
		return false
	}
	for _, prm := range c.core.Params {
		if n, ok := prm.Type().(*types.Named); ok {
			if _, isI := n.Underlying().(*types.Interface); isI {
				c.dsIface = n
			}
		}
	}
	if c.dsIface == nil {
		r.Unk("C10.anchor", "data-source interface", "-", "core loop has no interface parameter")
		return false
	}
	r.Notes = append(r.Notes, fmt.Sprintf("anchors: state field %s.%s guarded by %s; start function %s; core loop %s; interface %s",
		c.anyT.Obj().Name(), c.stateField, c.lockField, FuncName(c.starter), FuncName(c.core), c.dsIface.Obj().Name()))
	return true
}

// c10write: one write of the life-cycle field: a store, or a call of a setter (a helper whose
// stores of the field are all of one of its parameters: `setStateLocked(s)`) with the value handed in.
type c10write struct {
	At  ssa.Instruction
	Val ssa.Value
}

// stateSetter: every store of the life-cycle field in fn stores the same parameter of fn, on every
// way through fn; returns that parameter's index.
func (c *c10ctx) stateSetter(fn *ssa.Function) (int, bool) {
	if fn == nil || fn.Blocks == nil {
		return 0, false
	}
	if k, ok := c.setters[fn]; ok {
		return k, k >= 0
	}
	idx := -1
	stores := StoresTo(fn, c.anyT.Obj().Name(), c.stateField)
	for _, st := range stores {
		prm, ok := stripConv(st.Val).(*ssa.Parameter)
		if !ok || !alwaysExecutes(st) {
			idx = -2
			break
		}
		k := -1
		for i, q := range fn.Params {
			if q == prm {
				k = i
			}
		}
		if k < 0 || (idx >= 0 && idx != k) {
			idx = -2
			break
		}
		idx = k
	}
	if len(stores) == 0 || idx < 0 {
		idx = -1
	}
	if c.setters == nil {
		c.setters = map[*ssa.Function]int{}
	}
	c.setters[fn] = idx
	return idx, idx >= 0
}

// stateWrites: the writes of the life-cycle field made in fn: its own stores (a setter's stores of
// its parameter are left to its callers) and its calls of setters.
func (c *c10ctx) stateWrites(fn *ssa.Function) []c10write {
	var out []c10write
	if fn == nil || fn.Blocks == nil {
		return out
	}
	if _, isSetter := c.stateSetter(fn); !isSetter {
		for _, st := range StoresTo(fn, c.anyT.Obj().Name(), c.stateField) {
			out = append(out, c10write{st, st.Val})
		}
	}
	Instrs(fn, func(in ssa.Instruction) {
		cc := CallOf(in)
		if cc == nil {
			return
		}
		if _, isGo := in.(*ssa.Go); isGo {
			return
		}
		callee := cc.StaticCallee()
		if k, ok := c.stateSetter(callee); ok && k < len(cc.Args) {
			out = append(out, c10write{in, cc.Args[k]})
		}
	})
	return out
}

// stateStores returns the constants an implementation stores into the life-cycle field.
func (c *c10ctx) stateStores(fn *ssa.Function) map[int64]bool {
	out := map[int64]bool{}
	fn = Unwrap(fn)
	if fn == nil || fn.Blocks == nil {
		return out
	}
	for _, w := range c.stateWrites(fn) {
		if v, ok := constInt(stripConv(w.Val)); ok {
			out[v] = true
		} else {
			out[-1] = true
		}
	}
	return out
}

func (c *c10ctx) callsWG(fn *ssa.Function, method string) bool {
	fn = Unwrap(fn)
	res := false
	if fn == nil || fn.Blocks == nil {
		return false
	}
	Instrs(fn, func(in ssa.Instruction) {
		if IsCallTo(in, "(*sync.WaitGroup)."+method) {
			res = true
		}
	})
	return res
}

// implsAll: does every implementation of the invoked method satisfy pred?  any: at least one.
func (c *c10ctx) impls(in ssa.Instruction) []*ssa.Function {
	var out []*ssa.Function
	seen := map[*ssa.Function]bool{}
	for _, f := range c.p.callees(in) {
		u := Unwrap(f)
		if !seen[u] {
			seen[u] = true
			out = append(out, u)
		}
	}
	return out
}

func (c *c10ctx) allImpls(in ssa.Instruction, pred func(*ssa.Function) bool) bool {
	fs := c.impls(in)
	if len(fs) == 0 {
		return false
	}
	for _, f := range fs {
		if !pred(f) {
			return false
		}
	}
	return true
}

// ---- R1 ---------------------------------------------------------------------------

func (c *c10ctx) ruleR1() {
	p, r := c.p, c.r
	fn := c.starter
	r.Fn(FuncName(fn))
	sets := func(name string) func(ssa.Instruction) bool {
		v := c.consts[name]
		return func(in ssa.Instruction) bool {
			if CallOf(in) == nil {
				return false
			}
			if _, isGo := in.(*ssa.Go); isGo {
				return false
			}
			if c.allImpls(in, func(f *ssa.Function) bool { return c.stateStores(f)[v] }) {
				return true
			}
			// a closure of the start function itself (deferred clean-up) or a module helper it
			// calls (failStart(ds, err)): look at the calls it makes; in a helper the call must
			// run on every path through it
			for _, cal := range p.callees(in) {
				closure := cal.Parent() == fn
				if !closure && !isModuleFn(cal) {
					continue
				}
				found := false
				Instrs(cal, func(x ssa.Instruction) {
					if CallOf(x) != nil && c.allImpls(x, func(f *ssa.Function) bool { return c.stateStores(f)[v] }) {
						if closure || alwaysExecutes(x) {
							found = true
						}
					}
				})
				if found {
					return true
				}
			}
			return false
		}
	}
	var first ssa.Instruction
	Instrs(fn, func(in ssa.Instruction) {
		if first == nil && sets("Starting")(in) {
			first = in
		}
	})
	if first == nil {
		r.Bad("C10.R1", FuncName(fn)+" enters Starting", p.Pos(fn.Pos()), "the start function never moves the source to the Starting state (concurrent starts are not excluded)")
		return
	}
	r.OK("C10.R1", FuncName(fn)+" enters Starting", p.InstrPos(first), "first life-cycle call moves Inactive->Starting")
	// nothing that can fail or acquire precedes it
	firstVal, _ := first.(ssa.Value)
	isErrReturn := func(in ssa.Instruction) bool {
		ret, ok := in.(*ssa.Return)
		if !ok || len(ret.Results) == 0 {
			return false
		}
		res := returnedValue(ret, len(ret.Results)-1) // named results are spilled when the function defers
		if cst, isC := res.(*ssa.Const); isC && cst.Value == nil {
			return false
		}
		if firstVal != nil && res == firstVal {
			return false // failure of the Starting transition itself: state unchanged
		}
		return true
	}
	esc := ReachAvoiding(fn, first, sets("Inactive"), isErrReturn)
	if len(esc) == 0 {
		r.OK("C10.R1", FuncName(fn)+" error exits reset the state", p.Pos(fn.Pos()), "every error return after Starting passes a call that sets Inactive")
	}
	for _, e := range esc {
		r.Bad("C10.R1", FuncName(fn)+" error exits reset the state", p.InstrPos(e), "an error return is reachable after the state became Starting without resetting it to Inactive: the source can never be started again")
	}
	// wait-group balance per exit
	adds := CountEvents(fn, func(in ssa.Instruction) CountSet {
		if CallOf(in) != nil && c.allImpls(in, func(f *ssa.Function) bool { return c.callsWG(f, "Add") }) {
			if _, isGo := in.(*ssa.Go); !isGo {
				return C1
			}
		}
		return 0
	})
	dones := CountEvents(fn, func(in ssa.Instruction) CountSet {
		if CallOf(in) != nil && c.allImpls(in, func(f *ssa.Function) bool { return c.callsWG(f, "Done") }) {
			if _, isGo := in.(*ssa.Go); !isGo {
				return C1
			}
		}
		return 0
	})
	gos := CountEvents(fn, func(in ssa.Instruction) CountSet {
		if in == ssa.Instruction(c.goCore) {
			return C1
		}
		return 0
	})
	good := len(adds) == len(dones) && len(adds) == len(gos)
	msg := ""
	deficit := 0 // Add - Done - core loops on the unbalanced exit (0: not a plain count)
	for i := range adds {
		if !good {
			break
		}
		if adds[i].Kind != ExitReturn {
			continue
		}
		a, d, g := adds[i].Count, dones[i].Count, gos[i].Count
		single := func(s CountSet) bool { return s == C0 || s == C1 }
		if !single(a) || !single(d) || !single(g) {
			good = false
			msg = fmt.Sprintf("exit at %s: Add %s, Done %s, core-loop starts %s (not a single count)", p.InstrPos(adds[i].Instr), a, d, g)
			break
		}
		na, nd, ng := maxCount(a), maxCount(d), maxCount(g)
		if na-nd != ng {
			good = false
			msg = fmt.Sprintf("exit at %s: WaitGroup.Add x%d, Done x%d, core loop started x%d: the run-done barrier is left unbalanced", p.InstrPos(adds[i].Instr), na, nd, ng)
			deficit = na - nd - ng
		}
	}
	// clean-up done by a deferred closure (`defer func() { if err != nil { abort(); deactivate() } }()`):
	// what it does on each exit depends on variables it captures; the per-exit counts above do not
	// include it
	var cleanupDefers []*ssa.Defer
	deferDone := false // some deferred clean-up closure can call Done
	Instrs(fn, func(in ssa.Instruction) {
		d, ok := in.(*ssa.Defer)
		if !ok {
			return
		}
		mc, isMC := d.Call.Value.(*ssa.MakeClosure)
		if !isMC {
			return
		}
		cl, _ := mc.Fn.(*ssa.Function)
		if cl == nil {
			return
		}
		has := false
		InstrsDeep(cl, 1, func(dd DeepInstr) {
			x := dd.In
			if CallOf(x) == nil {
				return
			}
			if c.allImpls(x, func(f *ssa.Function) bool { return c.callsWG(f, "Done") }) {
				deferDone = true
			}
			if sets("Inactive")(x) || c.allImpls(x, func(f *ssa.Function) bool { return c.callsWG(f, "Done") }) || calleeNamed(x, "abortStart") {
				has = true
			}
		})
		if has {
			cleanupDefers = append(cleanupDefers, d)
		}
	})
	for _, d := range cleanupDefers {
		// such a clean-up must be armed only once the source has entered Starting: armed earlier it
		// also runs when the start was refused, on a source that is running
		armedAfter := false
		if fv, isV := first.(ssa.Value); isV {
			if call, isCall := fv.(*ssa.Call); isCall {
				armedAfter = nilEdgeDominates(call, d.Block())
			}
		}
		if !armedAfter {
			armedAfter = InstrDominates(first, d) && func() bool {
				// the Starting call's failure returns before the defer
				for _, ct := range controllingIfs(d.Block()) {
					if bo, ok := ct.If.Cond.(*ssa.BinOp); ok && (resolveSpilled(bo.X, ct.If, 0) == first.(ssa.Value) || bo.X == first.(ssa.Value)) {
						return true
					}
				}
				return false
			}()
		}
		r.Check(armedAfter, "C10.R1", FuncName(fn)+": the deferred clean-up is armed only after the source entered Starting", p.InstrPos(d), "the defer is on the success side of the Starting transition",
			"the clean-up closure deferred here (it releases devices / deactivates when the function returns an error) is installed before the test of the Starting transition: a Start that is refused because the source is already running returns that error, the closure runs, and the running source has its devices closed and its state reset - it stays Active but delivers no more blocks")
	}
	if !good && len(cleanupDefers) > 0 && deficit > 0 && !deferDone {
		// the closure, whatever it decides from its captured variables, has no path that calls Done
		r.Bad("C10.R1", FuncName(fn)+" run-done balance", p.Pos(fn.Pos()), msg+" (the deferred clean-up closure never deactivates the barrier either)")
	} else if !good && len(cleanupDefers) > 0 {
		r.Unk("C10.R1", FuncName(fn)+" run-done balance", p.Pos(fn.Pos()), "the exits are cleaned up by a deferred closure whose actions depend on captured variables ("+msg+" without it): the balance of the run-done barrier is not decided for this form")
	} else {
		r.Check(good, "C10.R1", FuncName(fn)+" run-done balance", p.Pos(fn.Pos()), "on every exit Add-Done equals the number of core loops started (which call Done when they end)", msg)
	}
	// the core loop must call Done exactly via its deferred deactivation: checked in R2
	// go core dominated by the Active transition; and no error return after go
	var act ssa.Instruction
	Instrs(fn, func(in ssa.Instruction) {
		if sets("Active")(in) && InstrDominates(in, c.goCore) {
			act = in
		}
	})
	r.Check(act != nil, "C10.R1", FuncName(fn)+" Active before core loop", p.InstrPos(c.goCore), "the core loop is started only after the state became Active", "the core loop is started on a path where the state was not set to Active")
	after := ReachAvoiding(fn, c.goCore, nil, isErrReturn)
	r.Check(len(after) == 0, "C10.R1", FuncName(fn)+" success after core loop start", p.InstrPos(c.goCore), "no error return after the core loop was started", "an error is returned although the core loop was started")
	// the Starting transition itself must be conditional on Inactive (checked on its implementations)
	for _, impl := range c.impls(first) {
		okc := false
		for _, w := range c.stateWrites(impl) {
			// store must be controlled by the outcome "state == Inactive" of a comparison, however
			// it is spelled (==, != on the other side, operands swapped, negated)
			for _, ci := range controllingIfs(w.At.Block()) {
				cond := ci.If.Cond
				side := ci.Branch
				for {
					u, isU := cond.(*ssa.UnOp)
					if !isU || u.Op != token.NOT {
						break
					}
					cond, side = u.X, 1-side
				}
				bo, ok := cond.(*ssa.BinOp)
				if !ok || (bo.Op != token.EQL && bo.Op != token.NEQ) {
					continue
				}
				for _, pair := range [][2]ssa.Value{{bo.X, bo.Y}, {bo.Y, bo.X}} {
					v, isC := constInt(stripConv(pair[1]))
					_, f, _, isF := FieldOf(pair[0])
					if isC && v == c.consts["Inactive"] && isF && f == c.stateField {
						if (bo.Op == token.EQL && side == 0) || (bo.Op == token.NEQ && side == 1) {
							okc = true
						}
					}
				}
			}
		}
		if !okc {
			// any other spelling (a switch that refuses the other states, ...): decided by going through
			// the states one at a time - conditional constant propagation with the state field
			// assumed to hold that state on entry; the store of Starting may be reachable for
			// Inactive only
			var names []string
			for nm := range c.consts {
				names = append(names, nm)
			}
			sort.Strings(names)
			reach := map[string]bool{}
			for _, nm := range names {
				res := sccpFields(impl, nil, map[string]lat{c.stateField: latInt(c.consts[nm])})
				for _, w := range c.stateWrites(impl) {
					if v, isC := constInt(stripConv(w.Val)); isC && v == c.consts["Starting"] && res.Executable(w.At) {
						reach[nm] = true
					}
				}
			}
			var wrong []string
			for _, nm := range names {
				if nm != "Inactive" && reach[nm] {
					wrong = append(wrong, nm)
				}
			}
			if reach["Inactive"] && len(wrong) == 0 && len(names) >= 2 {
				r.OK("C10.R1", FuncName(impl)+" only from Inactive", p.Pos(impl.Pos()), "with the state assumed to be each of "+strings.Join(names, ", ")+" in turn, the store of Starting can run for Inactive only")
				continue
			}
			if len(wrong) > 0 {
				r.Bad("C10.R1", FuncName(impl)+" only from Inactive", p.Pos(impl.Pos()), "the Starting transition can be taken when the state is "+strings.Join(wrong, ", ")+": a source that is running, starting or still stopping could be started again")
				continue
			}
		}
		r.Check(okc, "C10.R1", FuncName(impl)+" only from Inactive", p.Pos(impl.Pos()), "Starting is entered only when the state is Inactive", "the Starting transition is not guarded by state == Inactive: a running source could be started twice")
	}
}

// ---- R2 ---------------------------------------------------------------------------

func (c *c10ctx) ruleR2() {
	p, r := c.p, c.r
	fn := c.core
	r.Fn(FuncName(fn))
	var def *ssa.Defer
	blockingBefore := ""
	for _, in := range fn.Blocks[0].Instrs {
		if d, ok := in.(*ssa.Defer); ok {
			if c.allImpls(d, func(f *ssa.Function) bool {
				return c.stateStores(f)[c.consts["Inactive"]] && c.callsWG(f, "Done")
			}) {
				def = d
				break
			}
		}
		switch x := in.(type) {
		case *ssa.Select, *ssa.Send:
			blockingBefore = p.InstrPos(in)
		case *ssa.UnOp:
			if x.Op == token.ARROW {
				blockingBefore = p.InstrPos(in)
			}
		case *ssa.Call:
			blockingBefore = p.InstrPos(in)
		}
	}
	r.Check(def != nil && blockingBefore == "", "C10.R2", FuncName(fn)+" defers deactivation at entry", p.Pos(fn.Pos()),
		"first action is `defer <state=Inactive; runDone.Done()>`: every exit, including panics, deactivates",
		"the core loop must defer the deactivating call (state Inactive + WaitGroup.Done) in its entry block before anything that can block or fail; otherwise an exit path leaves Stop waiting forever"+map[bool]string{true: " (something runs before it at " + blockingBefore + ")"}[blockingBefore != ""])
	// the loop exits when the block channel is closed or carries an error: the two exits exist
	nret := 0
	Instrs(fn, func(in ssa.Instruction) {
		if isReturn(in) {
			nret++
		}
	})
	r.Check(nret >= 1, "C10.R2", FuncName(fn)+" can end", p.Pos(fn.Pos()), fmt.Sprintf("%d return(s)", nret), "the core loop has no return: a closed next-block channel can never end the run")
	// a closed next-block channel must lead to return: the comma-ok receive's !ok branch reaches a return without looping
	Instrs(fn, func(in ssa.Instruction) {
		sel, ok := in.(*ssa.Select)
		if !ok {
			return
		}
		for k, s := range sel.States {
			if s.Dir != types.RecvOnly || isChanOf(s.Chan.Type(), isFuncVoid) {
				continue
			}
			arm := SelectArms(sel)[k]
			if arm == nil {
				continue
			}
			// find `if ok` on extract #1
			var okv ssa.Value
			for _, ref := range *sel.Referrers() {
				if e, isE := ref.(*ssa.Extract); isE && e.Index == 1 {
					okv = e
				}
			}
			good := false
			if okv != nil {
				// the blocks entered when ok is false: `if ok` (false successor) or `if !ok` / `case !ok` (true successor)
				var closedArms []*ssa.BasicBlock
				for _, ref := range *okv.Referrers() {
					if iff, isIf := ref.(*ssa.If); isIf {
						closedArms = append(closedArms, iff.Block().Succs[1])
					}
					if not, isNot := ref.(*ssa.UnOp); isNot && not.Op == token.NOT {
						for _, r2 := range *not.Referrers() {
							if iff, isIf := r2.(*ssa.If); isIf {
								closedArms = append(closedArms, iff.Block().Succs[0])
							}
						}
					}
				}
				// `if done := handle(ds, block, ok); done { return }`: a helper is handed ok; what it
				// returns when ok is false (constant propagation with that assumption) decides the arm
				for _, ref := range *okv.Referrers() {
					call, isCall := ref.(*ssa.Call)
					if !isCall {
						continue
					}
					h := call.Call.StaticCallee()
					if !isModuleFn(h) || call.Call.IsInvoke() || len(h.Params) != len(call.Call.Args) {
						continue
					}
					env := map[ssa.Value]lat{}
					for i, a := range call.Call.Args {
						if a == okv {
							env[h.Params[i]] = latBool(false)
						}
					}
					res := sccp(h, env)
					nres := h.Signature.Results().Len()
					for ri := 0; ri < nres; ri++ {
						val, known := lat{}, true
						first := true
						Instrs(h, func(x ssa.Instruction) {
							ret, isRet := x.(*ssa.Return)
							if !isRet || !res.Executable(x) {
								return
							}
							l := res.Get(ret.Results[ri])
							if !l.isConst() || l.c == nil || l.c.Kind() != constant.Bool {
								known = false
								return
							}
							if first {
								val, first = l, false
							} else if !val.equal(l) {
								known = false
							}
						})
						if !known || first {
							continue
						}
						var rv ssa.Value = call
						if nres > 1 {
							rv = nil
							for _, r2 := range *call.Referrers() {
								if e, isE := r2.(*ssa.Extract); isE && e.Index == ri {
									rv = e
								}
							}
						}
						if rv == nil {
							continue
						}
						whenClosed := constant.BoolVal(val.c)
						for _, r2 := range *rv.Referrers() {
							if iff, isIf := r2.(*ssa.If); isIf {
								closedArms = append(closedArms, iff.Block().Succs[map[bool]int{true: 0, false: 1}[whenClosed]])
							}
							if not, isNot := r2.(*ssa.UnOp); isNot && not.Op == token.NOT {
								for _, r3 := range *not.Referrers() {
									if iff, isIf := r3.(*ssa.If); isIf {
										closedArms = append(closedArms, iff.Block().Succs[map[bool]int{true: 1, false: 0}[whenClosed]])
									}
								}
							}
						}
					}
				}
				for _, ca := range closedArms {
					// the closed case must reach a return without passing the select again
					hits := reachFromBlock(ca, func(x ssa.Instruction) bool { return x == ssa.Instruction(sel) }, isReturn)
					back := reachFromBlock(ca, isReturn, func(x ssa.Instruction) bool { return x == ssa.Instruction(sel) })
					if len(hits) > 0 && len(back) == 0 {
						good = true
					}
				}
			}
			r.Check(good, "C10.R2", FuncName(fn)+" ends on closed block channel", p.InstrPos(sel), "receive uses comma-ok and the closed case returns", "the core loop does not return when the next-block channel is closed (end of data would spin or block forever)")
		}
	})
}

func reachFromBlock(b *ssa.BasicBlock, barrier, stop func(ssa.Instruction) bool) []ssa.Instruction {
	var out []ssa.Instruction
	type visit struct{ b, from *ssa.BasicBlock }
	seen := map[visit]bool{}
	var walk func(b, from *ssa.BasicBlock)
	walk = func(b, from *ssa.BasicBlock) {
		if seen[visit{b, from}] {
			return
		}
		seen[visit{b, from}] = true
		for _, in := range b.Instrs {
			if barrier != nil && barrier(in) {
				return
			}
			if stop(in) {
				out = append(out, in)
				return
			}
		}
		succs := b.Succs
		if len(b.Instrs) > 0 {
			if iff, ok := b.Instrs[len(b.Instrs)-1].(*ssa.If); ok {
				// a branch on a condition merged from constants is decided by the way in
				if k := decidedOnEdge(iff.Cond, b, from); k >= 0 {
					succs = b.Succs[k : k+1]
				}
			}
		}
		for _, s := range succs {
			walk(s, b)
		}
	}
	walk(b, nil)
	return out
}

// ---- R3 ---------------------------------------------------------------------------

// lockStates computes for every instruction whether the mutex `field` may be
// unlocked (bit0) / locked (bit1) just before it.
func lockStates(fn *ssa.Function, isLock, isUnlock func(ssa.Instruction) bool) map[ssa.Instruction]uint8 {
	const U, L = 1, 2
	in := make([]uint8, len(fn.Blocks))
	in[0] = U
	res := map[ssa.Instruction]uint8{}
	var deferUnlock []*ssa.Defer
	Instrs(fn, func(i ssa.Instruction) {
		if d, ok := i.(*ssa.Defer); ok && isUnlock(d) {
			deferUnlock = append(deferUnlock, d)
		}
	})
	step := func(b *ssa.BasicBlock, st uint8, record bool) uint8 {
		for _, i := range b.Instrs {
			if record {
				res[i] |= st
			}
			if _, isDefer := i.(*ssa.Defer); isDefer {
				continue
			}
			if _, isRD := i.(*ssa.RunDefers); isRD {
				for _, d := range deferUnlock {
					if d.Block().Dominates(b) {
						st = U
					} else {
						st |= U
					}
				}
				continue
			}
			if isLock(i) {
				st = L
			} else if isUnlock(i) {
				st = U
			}
		}
		return st
	}
	changed := true
	for changed {
		changed = false
		for _, b := range fn.Blocks {
			if in[b.Index] == 0 {
				continue
			}
			out := step(b, in[b.Index], false)
			for _, s := range b.Succs {
				if in[s.Index]|out != in[s.Index] {
					in[s.Index] |= out
					changed = true
				}
			}
		}
	}
	for _, b := range fn.Blocks {
		if in[b.Index] != 0 {
			step(b, in[b.Index], true)
		}
	}
	return res
}

func mutexFieldOf(in ssa.Instruction, method string) string {
	if !IsCallTo(in, "(*sync.Mutex)."+method, "(*sync.RWMutex)."+method) {
		return ""
	}
	cc := CallOf(in)
	if fa, ok := cc.Args[0].(*ssa.FieldAddr); ok {
		st := derefStruct(fa.X.Type())
		return ownerName(fa.X.Type()) + "." + st.Field(fa.Field).Name()
	}
	return "?"
}

// blocksDirect: instruction that can block indefinitely.
func blocksDirect(in ssa.Instruction) string {
	switch x := in.(type) {
	case *ssa.Send:
		return "channel send"
	case *ssa.UnOp:
		if x.Op == token.ARROW {
			return "channel receive"
		}
	case *ssa.Select:
		if x.Blocking {
			return "blocking select"
		}
	}
	if IsCallTo(in, "(*sync.WaitGroup).Wait") {
		return "WaitGroup.Wait"
	}
	return ""
}

func (c *c10ctx) mayBlock(fn *ssa.Function, depth int, seen map[*ssa.Function]bool) string {
	if fn == nil || fn.Blocks == nil || seen[fn] || depth > 3 {
		return ""
	}
	seen[fn] = true
	pk := fnPkg(fn)
	if pk == nil || !strings.HasPrefix(pk.Path(), modPath) {
		return ""
	}
	res := ""
	Instrs(fn, func(in ssa.Instruction) {
		if res != "" {
			return
		}
		if _, isGo := in.(*ssa.Go); isGo {
			return
		}
		if b := blocksDirect(in); b != "" {
			res = b + " in " + FuncName(fn)
			return
		}
		if cc := CallOf(in); cc != nil {
			if sc := cc.StaticCallee(); sc != nil {
				if s := c.mayBlock(sc, depth+1, seen); s != "" {
					res = s
				}
			}
		}
	})
	return res
}

func (c *c10ctx) ruleR3() {
	p, r := c.p, c.r
	stateLock := c.anyT.Obj().Name() + "." + c.lockField
	var safeClosers = map[*ssa.Function]bool{}
	// close-once helper: function whose chan parameter is closed in the default arm of a non-blocking receive on the same parameter
	for _, fn := range p.LibFuncs() {
		Instrs(fn, func(in ssa.Instruction) {
			sel, ok := in.(*ssa.Select)
			if !ok || sel.Blocking || len(sel.States) != 1 || sel.States[0].Dir != types.RecvOnly {
				return
			}
			prm, ok := sel.States[0].Chan.(*ssa.Parameter)
			if !ok {
				return
			}
			d := SelectArms(sel)[-1]
			if d == nil {
				return
			}
			closesInDefault, closesElsewhere := false, false
			Instrs(fn, func(x ssa.Instruction) {
				if cc := CallOf(x); cc != nil {
					if b, isB := cc.Value.(*ssa.Builtin); isB && b.Name() == "close" && cc.Args[0] == ssa.Value(prm) {
						if d.Dominates(x.Block()) {
							closesInDefault = true
						} else {
							closesElsewhere = true
						}
					}
				}
			})
			if closesInDefault && !closesElsewhere {
				safeClosers[fn] = true
			}
		})
	}
	// R3a/R3b over every function that locks a mutex field
	for _, fn := range p.LibFuncs() {
		locks := map[string]bool{}
		Instrs(fn, func(in ssa.Instruction) {
			if m := mutexFieldOf(in, "Lock"); m != "" {
				if _, isDefer := in.(*ssa.Defer); !isDefer {
					locks[m] = true
				}
			}
		})
		var names []string
		for m := range locks {
			names = append(names, m)
		}
		sort.Strings(names)
		for _, m := range names {
			r.Fn(FuncName(fn))
			isL := func(in ssa.Instruction) bool { return mutexFieldOf(in, "Lock") == m }
			isU := func(in ssa.Instruction) bool { return mutexFieldOf(in, "Unlock") == m }
			st := lockStates(fn, isL, isU)
			good := true
			msg := ""
			for in, s := range st {
				if isReturn(in) && s != 1 {
					good = false
					msg = fmt.Sprintf("return at %s is reachable with %s still locked", p.InstrPos(in), m)
				}
				if isL(in) && s&2 != 0 {
					if _, isDefer := in.(*ssa.Defer); !isDefer {
						good = false
						msg = fmt.Sprintf("%s locked again at %s while possibly held (self-deadlock)", m, p.InstrPos(in))
					}
				}
				if isU(in) && s&1 != 0 {
					if _, isDefer := in.(*ssa.Defer); !isDefer {
						good = false
						msg = fmt.Sprintf("%s unlocked at %s while possibly not held", m, p.InstrPos(in))
					}
				}
			}
			r.Check(good, "C10.R3a", FuncName(fn)+" balances "+m, p.Pos(fn.Pos()), "locked once, released exactly once on every path", msg)
			if m != stateLock {
				continue
			}
			// R3b: nothing blocking while held
			bad := ""
			for in, s := range st {
				if s&2 == 0 || isL(in) || isU(in) {
					continue
				}
				if _, isDefer := in.(*ssa.Defer); isDefer {
					continue
				}
				if _, isGo := in.(*ssa.Go); isGo {
					continue
				}
				if b := blocksDirect(in); b != "" {
					bad = fmt.Sprintf("%s at %s", b, p.InstrPos(in))
				}
				if cc := CallOf(in); cc != nil {
					if sc := cc.StaticCallee(); sc != nil && !safeClosers[sc] {
						if s := c.mayBlock(sc, 0, map[*ssa.Function]bool{}); s != "" {
							bad = fmt.Sprintf("%s reached from the call at %s", s, p.InstrPos(in))
						}
					}
					if cc.IsInvoke() {
						for _, impl := range c.impls(in) {
							if s := c.mayBlock(impl, 0, map[*ssa.Function]bool{}); s != "" {
								bad = fmt.Sprintf("%s reached from the call at %s", s, p.InstrPos(in))
							}
						}
					}
				}
			}
			r.Check(bad == "", "C10.R3b", FuncName(fn)+" holds "+m+" only briefly", p.Pos(fn.Pos()), "no blocking operation while the state mutex is held", "a blocking operation runs with the state mutex held ("+bad+"): the core loop's deactivation needs this mutex, so Stop can deadlock")
		}
	}
	// stores to the state field only with the mutex held
	for _, fn := range p.LibFuncs() {
		stores := c.stateWrites(fn) // (a setter's own store is judged where the setter is called)
		if len(stores) == 0 {
			continue
		}
		r.Fn(FuncName(fn))
		isL := func(in ssa.Instruction) bool { return mutexFieldOf(in, "Lock") == stateLock }
		isU := func(in ssa.Instruction) bool { return mutexFieldOf(in, "Unlock") == stateLock }
		st := lockStates(fn, isL, isU)
		good := true
		at := ""
		for _, s := range stores {
			if st[s.At] != 2 {
				good = false
				at = p.InstrPos(s.At)
			}
		}
		r.Check(good, "C10.R3a", FuncName(fn)+" writes "+c.stateField+" under the mutex", p.Pos(fn.Pos()), "every store to the life-cycle state holds the mutex", "life-cycle state written at "+at+" without holding "+stateLock)
	}
	// R3c: who may close the abort channel
	abortField := ""
	ast := c.anyT.Underlying().(*types.Struct)
	for i := 0; i < ast.NumFields(); i++ {
		f := ast.Field(i)
		if ch, ok := f.Type().Underlying().(*types.Chan); ok {
			if s, isS := ch.Elem().Underlying().(*types.Struct); isS && s.NumFields() == 0 {
				abortField = f.Name()
			}
		}
	}
	if abortField == "" {
		r.Unk("C10.R3c", "abort channel", "-", "AnySource has no chan struct{} field")
		return
	}
	isAbort := func(v ssa.Value) bool {
		o, f, _, ok := FieldOf(v)
		return ok && f == abortField && o == c.anyT.Obj().Name()
	}
	nclose := 0
	var stopFn *ssa.Function
	inlineCloses := map[ssa.Instruction]bool{}
	for _, fn := range p.LibFuncs() {
		Instrs(fn, func(in ssa.Instruction) {
			cc := CallOf(in)
			if cc == nil {
				return
			}
			if b, isB := cc.Value.(*ssa.Builtin); isB && b.Name() == "close" && isAbort(cc.Args[0]) {
				nclose++
				// the close-once idiom written in place: close in the default arm of a
				// non-blocking select whose only case receives from the same channel
				if closeOnceInline(in, isAbort) {
					stopFn = fn
					inlineCloses[in] = true
					isL := func(in ssa.Instruction) bool { return mutexFieldOf(in, "Lock") == stateLock }
					isU := func(in ssa.Instruction) bool { return mutexFieldOf(in, "Unlock") == stateLock }
					st := lockStates(fn, isL, isU)
					r.Check(st[in] == 2, "C10.R3c", "abort closed under the mutex in "+FuncName(fn), p.InstrPos(in), "close-once idiom executed with the state mutex held", "the abort channel is closed without holding the state mutex: two racing Stop calls can both pass the open-check")
					return
				}
				r.Bad("C10.R3c", "raw close of "+abortField+" in "+FuncName(fn), p.InstrPos(in), "the abort channel must be closed through the close-once helper: concurrent or repeated Stop calls would panic on a double close")
				return
			}
			for _, a := range cc.Args {
				if isAbort(a) {
					sc := cc.StaticCallee()
					if sc != nil && safeClosers[sc] {
						nclose++
						stopFn = fn
						isL := func(in ssa.Instruction) bool { return mutexFieldOf(in, "Lock") == stateLock }
						isU := func(in ssa.Instruction) bool { return mutexFieldOf(in, "Unlock") == stateLock }
						st := lockStates(fn, isL, isU)
						r.Check(st[in] == 2, "C10.R3c", "abort closed under the mutex in "+FuncName(fn), p.InstrPos(in), "close-once helper called with the state mutex held", "the abort channel is closed without holding the state mutex: two racing Stop calls can both pass the open-check")
					} else if sc != nil {
						// passing the channel elsewhere: does the callee close it?
						closes := false
						Instrs(sc, func(x ssa.Instruction) {
							if c2 := CallOf(x); c2 != nil {
								if b, isB := c2.Value.(*ssa.Builtin); isB && b.Name() == "close" {
									closes = true
								}
							}
						})
						if closes {
							r.Bad("C10.R3c", "abort closed by "+FuncName(sc), p.InstrPos(in), "the abort channel is handed to a function that closes it without the close-once guard")
						}
					}
				}
			}
		})
	}
	r.Check(nclose > 0, "C10.R3c", "abort channel is closed somewhere", "-", fmt.Sprintf("%d close site(s)", nclose), "nothing ever closes the abort channel: Stop cannot stop the producers")
	if stopFn != nil {
		// Stop: Stopping store and abort close precede the barrier wait; wait happens unlocked
		var wait ssa.Instruction
		Instrs(stopFn, func(in ssa.Instruction) {
			if cc := CallOf(in); cc != nil {
				if IsCallTo(in, "(*sync.WaitGroup).Wait") {
					wait = in
				} else if sc := cc.StaticCallee(); sc != nil && wait == nil {
					Instrs(sc, func(x ssa.Instruction) {
						if IsCallTo(x, "(*sync.WaitGroup).Wait") {
							wait = in
						}
					})
				}
			}
		})
		if wait == nil {
			r.Bad("C10.R3c", FuncName(stopFn)+" waits for the run to end", p.Pos(stopFn.Pos()), "Stop does not wait on the run-done barrier: it returns while the core loop is still processing")
		} else {
			good := true
			msg := ""
			for _, s := range c.stateWrites(stopFn) {
				if !InstrDominates(s.At, wait) {
					good = false
					msg = "the Stopping store does not precede the wait"
				}
			}
			Instrs(stopFn, func(in ssa.Instruction) {
				if cc := CallOf(in); cc != nil && cc.StaticCallee() != nil && safeClosers[cc.StaticCallee()] {
					if !InstrDominates(in, wait) {
						good = false
						msg = "the abort close does not precede the wait"
					}
				}
				if inlineCloses[in] {
					// the select that holds the close is passed on every path to the wait
					if sel := enclosingSelect(in); sel == nil || !InstrDominates(sel, wait) {
						good = false
						msg = "the abort close does not precede the wait"
					}
				}
			})
			// everything after the wait that mutates run state must be dominated by it (writing stop etc.)
			r.Check(good, "C10.R3c", FuncName(stopFn)+" signals then waits", p.InstrPos(wait), "state=Stopping and abort close dominate the barrier wait", msg)
			// after the barrier: writes of shared state only after the wait (no such write before it except state/abort)
			pre := p.TransEffects(stopFn, func(in ssa.Instruction) bool { return in == wait || InstrDominates(wait, in) }, nil)
			var early []string
			for k := range pre.W {
				if k.Field == c.stateField {
					continue
				}
				early = append(early, k.String())
			}
			sort.Strings(early)
			r.Check(len(early) == 0, "C10.R3c", FuncName(stopFn)+" touches run state only after the barrier", p.InstrPos(wait), "only the life-cycle state is written before the core loop has ended", "Stop writes "+strings.Join(early, ", ")+" before waiting for the core loop to end (concurrent with block processing)")
		}
	}
	// R3d: per-start preparation re-makes abort and next-block channels
	for _, in := range c.starterInvokes() {
		for _, impl := range c.impls(in) {
			mk := map[string][]*ssa.Store{}
			Instrs(impl, func(x ssa.Instruction) {
				st, ok := x.(*ssa.Store)
				if !ok {
					return
				}
				if _, isMk := st.Val.(*ssa.MakeChan); !isMk {
					return
				}
				if o, f, _, ok := FieldOf(st.Addr); ok && o == c.anyT.Obj().Name() {
					_ = f
				}
				if fa, ok := st.Addr.(*ssa.FieldAddr); ok && ownerName(fa.X.Type()) == c.anyT.Obj().Name() {
					s := derefStruct(fa.X.Type())
					mk[s.Field(fa.Field).Name()] = append(mk[s.Field(fa.Field).Name()], st)
				}
			})
			if len(mk) == 0 {
				continue
			}
			r.Fn(FuncName(impl))
			var fields []string
			for f := range mk {
				fields = append(fields, f)
			}
			sort.Strings(fields)
			for _, f := range fields {
				okRet := func(x ssa.Instruction) bool {
					ret, ok := x.(*ssa.Return)
					if !ok || len(ret.Results) == 0 {
						return ok
					}
					cst, isC := ret.Results[len(ret.Results)-1].(*ssa.Const)
					return isC && cst.Value == nil
				}
				esc := ReachAvoiding(impl, nil, func(x ssa.Instruction) bool {
					for _, s := range mk[f] {
						if x == ssa.Instruction(s) {
							return true
						}
					}
					return false
				}, okRet)
				r.Check(len(esc) == 0, "C10.R3d", FuncName(impl)+" re-makes "+f, p.InstrPos(mk[f][0]), "fresh channel on every successful start", "a successful return of the preparation step is reachable without re-making "+f+": a restarted source would reuse a closed channel")
			}
		}
	}
	// a channel of the source that is closed in the course of a run (the abort channel, the
	// next-block channel) must be among the re-made ones: with the make deleted outright there is
	// no store left to judge above
	remade := map[string]bool{}
	for _, in := range c.starterInvokes() {
		for _, impl := range c.impls(in) {
			Instrs(impl, func(x ssa.Instruction) {
				if st, ok := x.(*ssa.Store); ok {
					if _, isMk := st.Val.(*ssa.MakeChan); isMk {
						if fa, ok := st.Addr.(*ssa.FieldAddr); ok && ownerName(fa.X.Type()) == c.anyT.Obj().Name() {
							remade[derefStruct(fa.X.Type()).Field(fa.Field).Name()] = true
						}
					}
				}
			})
		}
	}
	closed := map[string]ssa.Instruction{}
	isAnyChanField := func(v ssa.Value) (string, bool) {
		o, f, _, ok := FieldOf(v)
		if !ok || !ownerIs(o, c.anyT.Obj().Name()) {
			return "", false
		}
		_, isCh := v.Type().Underlying().(*types.Chan)
		return f, isCh
	}
	for _, fn := range p.LibFuncs() {
		Instrs(fn, func(x ssa.Instruction) {
			cc := CallOf(x)
			if cc == nil {
				return
			}
			if b, ok := cc.Value.(*ssa.Builtin); ok && b.Name() == "close" {
				if f, ok := isAnyChanField(cc.Args[0]); ok {
					closed[f] = x
				}
				return
			}
			// a helper that closes its channel parameter (close-once)
			if callee := cc.StaticCallee(); callee != nil && isModuleFn(callee) {
				for i, a := range cc.Args {
					f, ok := isAnyChanField(a)
					if !ok || i >= len(callee.Params) {
						continue
					}
					Instrs(callee, func(y ssa.Instruction) {
						if c2 := CallOf(y); c2 != nil {
							if b, isB := c2.Value.(*ssa.Builtin); isB && b.Name() == "close" && c2.Args[0] == ssa.Value(callee.Params[i]) {
								closed[f] = x
							}
						}
					})
				}
			}
		})
	}
	var cf []string
	for f := range closed {
		cf = append(cf, f)
	}
	sort.Strings(cf)
	for _, f := range cf {
		if !remade[f] {
			r.Bad("C10.R3d", "channel "+f+" is re-made by the per-start preparation", p.InstrPos(closed[f]), "the source's channel "+f+" is closed in the course of a run (here) but no step of the start sequence makes a new one: the second start works with a closed channel (a closed abort channel ends the new run at once, a closed block channel panics its producer)")
		} else {
			r.OK("C10.R3d", "channel "+f+" is re-made by the per-start preparation", p.InstrPos(closed[f]), "closed during a run, made anew in a start step")
		}
	}
}

// starterInvokes lists the interface calls made by the start function, in order.
func (c *c10ctx) starterInvokes() []ssa.Instruction {
	var out []ssa.Instruction
	for _, st := range c.starterSteps() {
		out = append(out, st.inv)
	}
	return out
}

// starterStep: an interface call of the start sequence and the instruction of the start function
// itself that leads to it (the call itself, the call of a helper, or the call of a step value).
type starterStep struct {
	inv ssa.Instruction
	top ssa.Instruction
}

func (c *c10ctx) starterSteps() []starterStep {
	var out []starterStep
	seen := map[ssa.Instruction]bool{}
	add := func(in, top ssa.Instruction) {
		if cc := CallOf(in); cc != nil && cc.IsInvoke() && cc.Value.Type() == c.dsIface && !seen[in] {
			if _, isGo := in.(*ssa.Go); !isGo {
				seen[in] = true
				out = append(out, starterStep{in, top})
			}
		}
	}
	// in the start function, in the helpers it calls, and behind method values of the source
	// that it calls (a table of steps): the interface calls inside the bound-method wrappers
	InstrsDeep(c.starter, 2, func(d DeepInstr) {
		add(d.In, d.Top)
		cc := CallOf(d.In)
		if cc == nil || cc.IsInvoke() || cc.StaticCallee() != nil {
			return
		}
		if _, isB := cc.Value.(*ssa.Builtin); isB {
			return
		}
		for _, f := range c.p.callees(d.In) {
			if f != nil && f.Synthetic != "" && strings.HasSuffix(f.Name(), "$bound") {
				Instrs(f, func(x ssa.Instruction) { add(x, d.Top) })
			} else if isModuleFn(f) && f.Parent() != nil {
				// a closure in the table: func() error { return ds.PrepareRun(a, b) }
				Instrs(f, func(x ssa.Instruction) { add(x, d.Top) })
			}
		}
	})
	return out
}

// ---- R3f: precondition and transition in one critical section --------------------------------

func (c *c10ctx) ruleR3f() {
	p, r := c.p, c.r
	stateLock := c.anyT.Obj().Name() + "." + c.lockField
	for _, fn := range p.LibFuncs() {
		for _, w := range c.stateWrites(fn) {
			st := w.At
			v, ok := constInt(stripConv(w.Val))
			if !ok || (v != c.consts["Starting"] && v != c.consts["Stopping"]) {
				continue
			}
			r.Fn(FuncName(fn))
			isL := func(in ssa.Instruction) bool { return mutexFieldOf(in, "Lock") == stateLock }
			isU := func(in ssa.Instruction) bool { return mutexFieldOf(in, "Unlock") == stateLock }
			ls := lockStates(fn, isL, isU)
			good := false
			Instrs(fn, func(in ssa.Instruction) {
				u, ok := in.(*ssa.UnOp)
				if !ok || u.Op != token.MUL {
					return
				}
				if o, f, _, ok := FieldOf(u); !ok || f != c.stateField || o != c.anyT.Obj().Name() {
					return
				}
				if ls[in] != 2 || !InstrDominates(in, st) {
					return
				}
				// no path load -> Unlock -> store
				broken := false
				for _, un := range ReachAvoiding(fn, in, func(x ssa.Instruction) bool { return x == st }, func(x ssa.Instruction) bool {
					if _, isDefer := x.(*ssa.Defer); isDefer {
						return false
					}
					return isU(x)
				}) {
					if InstrReaches(un, st) {
						broken = true
					}
				}
				if !broken {
					good = true
				}
			})
			name := map[int64]string{c.consts["Starting"]: "Starting", c.consts["Stopping"]: "Stopping"}[v]
			r.Check(good, "C10.R3f", FuncName(fn)+" tests and sets "+name+" atomically", p.InstrPos(st),
				"the state is read and the transition written in one critical section",
				"the transition to "+name+" is not in the same critical section as the test of the current state: a source that ends itself (or a concurrent Start/Stop) between the test and the write is overwritten, leaving the state stuck")
		}
	}
}

// ---- R6: the RPC layer learns that the source stopped ------------------------------------------

func (c *c10ctx) ruleR6() {
	p, r := c.p, c.r
	rv, err := FindRendezvous(p)
	if err != nil {
		r.Unk("C10.R6", "rpc anchors", "-", err.Error())
		return
	}
	// the active flag: bool field of the controller tested first in the queueing function
	ctl := rv.Ctl.Obj().Name()
	flag := ""
	Instrs(rv.Queue, func(in ssa.Instruction) {
		if iff, ok := in.(*ssa.If); ok && flag == "" {
			v := iff.Cond
			if u, isU := v.(*ssa.UnOp); isU && u.Op == token.NOT {
				v = u.X
			}
			if o, f, _, ok := FieldOf(v); ok && o == ctl {
				flag = f
			}
		}
	})
	if flag == "" {
		r.Unk("C10.R6", "active flag", "-", "not found")
		return
	}
	clears := func(fn *ssa.Function) bool {
		ok, _ := p.Reaches(fn, func(f *ssa.Function) bool {
			for _, st := range StoresTo(f, ctl, flag) {
				if cst, isC := st.Val.(*ssa.Const); isC && cst.Value != nil && cst.Value.String() == "false" {
					return true
				}
			}
			return false
		}, 2)
		return ok
	}
	n := 0
	for _, h := range rv.Handlers {
		Instrs(h, func(in ssa.Instruction) {
			cc := CallOf(in)
			if cc == nil || !cc.IsInvoke() || cc.Value.Type() != c.dsIface {
				return
			}
			// does this invoke stop the source (its implementations store Stopping)?
			if !c.allImpls(in, func(f *ssa.Function) bool { return c.stateStores(f)[c.consts["Stopping"]] }) {
				return
			}
			n++
			r.Fn(FuncName(h))
			esc := ReachAvoiding(h, in, func(x ssa.Instruction) bool {
				if cc := CallOf(x); cc != nil && cc.StaticCallee() != nil {
					return clears(cc.StaticCallee())
				}
				return false
			}, isReturn)
			r.Check(len(esc) == 0, "C10.R6", FuncName(h)+" refreshes "+flag+" after Stop", p.InstrPos(in),
				"every path after the source's Stop passes the refresh of the active flag",
				"a return is reachable after calling the source's Stop without refreshing "+flag+": when the source had already ended by itself Stop reports an error, the RPC layer keeps believing a source is active, and no source can ever be started again")
		})
	}
	if n == 0 {
		r.Bad("C10.R6", "handler that stops the source", "-", "no RPC handler invokes the data source's Stop")
	}
}

// closeOnceInline: the close sits in the default arm of a non-blocking select whose only
// case receives from the channel being closed (isCh).
func closeOnceInline(closeInstr ssa.Instruction, isCh func(ssa.Value) bool) bool {
	sel := enclosingSelect(closeInstr)
	if sel == nil || sel.Blocking || len(sel.States) != 1 {
		return false
	}
	st := sel.States[0]
	return st.Dir == types.RecvOnly && isCh(st.Chan)
}

// enclosingSelect: the non-blocking select in whose default arm the instruction's block lies.
func enclosingSelect(in ssa.Instruction) *ssa.Select {
	var found *ssa.Select
	Instrs(in.Parent(), func(x ssa.Instruction) {
		sel, ok := x.(*ssa.Select)
		if !ok || sel.Blocking {
			return
		}
		if d := SelectArms(sel)[-1]; d != nil && (d == in.Block() || d.Dominates(in.Block())) {
			found = sel
		}
	})
	return found
}

// ---- R7: a remembered error that blocks a start is replaced by every later result ------------

// ruleR7: an error-typed field of a source that some function returns as its own error (so a
// remembered failure blocks the start) must not be sticky.  Each store of a computed error into
// such a field is either unconditional with respect to that error, or - when it sits under the
// test `err != nil` of the value it stores - is paired with a store of nil on the other outcome.
// Otherwise one rejected configuration makes every later start fail although the source is
// inactive and was configured successfully since.
func (c *c10ctx) ruleR7() {
	p, r := c.p, c.r
	// blocking fields: loaded and returned as the error result
	blocking := map[FieldKey]*ssa.Function{}
	for _, fn := range p.LibFuncs() {
		Instrs(fn, func(in ssa.Instruction) {
			ret, ok := in.(*ssa.Return)
			if !ok || len(ret.Results) == 0 {
				return
			}
			res := ret.Results[len(ret.Results)-1]
			if !isErrorType(res.Type()) {
				return
			}
			if ld, ok := res.(*ssa.UnOp); ok && ld.Op == token.MUL {
				if k, ok := fieldKeyOfAddr(ld.X); ok {
					blocking[k] = fn
				}
			}
		})
	}
	for _, fn := range p.LibFuncs() {
		Instrs(fn, func(in ssa.Instruction) {
			st, ok := in.(*ssa.Store)
			if !ok || !isErrorType(st.Val.Type()) {
				return
			}
			k, ok := fieldKeyOfAddr(st.Addr)
			if !ok || blocking[k] == nil {
				return
			}
			if _, local := addrRoot(st.Addr).(*ssa.Alloc); local {
				return // a field of a value built here (a result message), not of a long-lived object
			}
			if cst, isC := st.Val.(*ssa.Const); isC && cst.IsNil() {
				return
			}
			r.Fn(FuncName(fn))
			key := fmt.Sprintf("%s remembered in %s is replaced by every later result", k.String(), FuncName(fn))
			sticky := false
			for _, ci := range controllingIfs(st.Block()) {
				bo, ok := ci.If.Cond.(*ssa.BinOp)
				if !ok || (bo.Op != token.NEQ && bo.Op != token.EQL) {
					continue
				}
				var other ssa.Value
				if bo.X == st.Val {
					other = bo.Y
				} else if bo.Y == st.Val {
					other = bo.X
				}
				cst, isC := other.(*ssa.Const)
				if other == nil || !isC || !cst.IsNil() {
					continue
				}
				nonNilSide := 0
				if bo.Op == token.EQL {
					nonNilSide = 1
				}
				if ci.Branch != nonNilSide {
					continue
				}
				// stored only when non-nil: is nil stored on the other outcome?
				cleared := false
				for _, s2 := range StoresTo(fn, k.Owner, k.Field) {
					if c2, isC2 := s2.Val.(*ssa.Const); isC2 && c2.IsNil() {
						ob := ci.If.Block().Succs[1-nonNilSide]
						if ob == s2.Block() || ob.Dominates(s2.Block()) || InstrDominates(s2, ci.If) {
							cleared = true
						}
					}
				}
				if !cleared {
					sticky = true
				}
			}
			r.Check(!sticky, "C10.R7", key, p.InstrPos(st), "stored whatever the result was (nil clears an earlier error)",
				"the error is stored only when it is not nil and nothing stores nil otherwise: after one failed attempt "+FuncName(blocking[k])+" keeps returning the stale error, so the source can never be started again although it is inactive and a later configuration succeeded")
		})
	}
}
