package main

func c11GuardRules(c *c11ctx) {}
