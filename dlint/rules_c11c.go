package main

import (
	"fmt"
	"go/types"
	"golang.org/x/tools/go/ssa"
	"sort"
	"strings"
)

// requestHandlers: the RPC handlers whose arguments are request content in the sense of
// C11: those that reach the queueing function or invoke a method of the data-source
// interface (mix requests bypass the queue by design).
func requestHandlers(p *Prog, rv *Rendezvous) []*ssa.Function {
	var out []*ssa.Function
	for _, h := range rv.Handlers {
		hit, _ := p.Reaches(h, func(f *ssa.Function) bool { return rv.Queues[f] }, 3)
		if !hit {
			// direct interface call on a DataSource-typed value
			Instrs(h, func(in ssa.Instruction) {
				cc := CallOf(in)
				if cc != nil && cc.IsInvoke() && typeName(cc.Value.Type()) == "DataSource" {
					hit = true
				}
			})
		}
		if hit {
			out = append(out, h)
		}
	}
	return out
}

// requestPath: functions call-reachable (not through `go`) from request closures and handlers.
func requestPath(p *Prog, rv *Rendezvous) map[*ssa.Function]bool {
	seen := map[*ssa.Function]bool{}
	var visit func(f *ssa.Function)
	visit = func(f *ssa.Function) {
		if f == nil || seen[f] || f.Blocks == nil {
			return
		}
		pk := fnPkg(f)
		if pk == nil || !strings.HasPrefix(pk.Path(), modPath) {
			return
		}
		seen[f] = true
		Instrs(f, func(in ssa.Instruction) {
			if _, isGo := in.(*ssa.Go); isGo {
				return
			}
			if CallOf(in) == nil {
				return
			}
			for _, c := range p.callees(in) {
				visit(c)
			}
			if mc, ok := in.(*ssa.MakeClosure); ok {
				_ = mc
			}
		})
	}
	for _, h := range requestHandlers(p, rv) {
		visit(h)
	}
	for _, c := range rv.Closures {
		visit(c)
	}
	return seen
}

// perChannelTypes: the struct type processed per channel by the block fan-out (the parameter
// type of the function started with `go` inside the block-processing method) and every struct
// type it contains by value.  Fields of these types hold the trigger / record-length
// configuration consumed by the trigger arithmetic, which is the subject of C02/C08/C13.
func perChannelTypes(p *Prog) map[string]bool {
	out := map[string]bool{}
	ps := p.Func("", "AnySource", "ProcessSegments")
	if ps == nil {
		return out
	}
	var add func(t types.Type)
	add = func(t types.Type) {
		if pt, ok := t.(*types.Pointer); ok {
			t = pt.Elem()
		}
		n, ok := t.(*types.Named)
		if !ok {
			return
		}
		st, ok := n.Underlying().(*types.Struct)
		if !ok || out[ownerName(n)] {
			return
		}
		if n.Obj().Pkg() == nil || !strings.HasPrefix(n.Obj().Pkg().Path(), modPath) {
			return
		}
		out[ownerName(n)] = true
		for i := 0; i < st.NumFields(); i++ {
			ft := st.Field(i).Type()
			if _, isPtr := ft.(*types.Pointer); isPtr {
				continue
			}
			add(ft)
		}
	}
	// the fan-out may sit in ProcessSegments itself or in a helper it calls
	for _, host := range DeepFuncs(ps, 2) {
		// the functions the fan-out starts with `go`: closures or named methods
		Instrs(host, func(in ssa.Instruction) {
			g, ok := in.(*ssa.Go)
			if !ok {
				return
			}
			for _, f := range ResolveOr(p, g) {
				if !isModuleFn(f) {
					continue
				}
				for _, prm := range f.Params {
					add(prm.Type())
				}
			}
		})
	}
	return out
}

func requestTaint(p *Prog, rv *Rendezvous) *Taint {
	t := NewTaint(p)
	rp := requestPath(p, rv)
	pct := perChannelTypes(p)
	t.StoreScope = func(fn *ssa.Function) bool { return rp[fn] }
	t.LoadScope = func(fn *ssa.Function, k FieldKey) bool { return rp[fn] || !pct[k.Owner] }
	for _, h := range requestHandlers(p, rv) {
		if len(h.Params) >= 2 {
			t.SeedParam(h.Params[1], "argument of RPC handler "+FuncName(h))
		}
	}
	t.Run()
	return t
}

// runPhaseFuncs: everything reachable from the core loop, the request closures and every
// function started with `go` in library code (producers, writers, updaters).
func runPhaseFuncs(p *Prog, rv *Rendezvous) map[*ssa.Function]bool {
	seen := map[*ssa.Function]bool{}
	var visit func(f *ssa.Function)
	visit = func(f *ssa.Function) {
		if f == nil || seen[f] || f.Blocks == nil {
			return
		}
		pk := fnPkg(f)
		if pk == nil || !strings.HasPrefix(pk.Path(), modPath) {
			return
		}
		seen[f] = true
		Instrs(f, func(in ssa.Instruction) {
			if CallOf(in) == nil {
				return
			}
			for _, c := range p.callees(in) {
				visit(c)
			}
		})
	}
	if cl := p.Func("", "", "CoreLoop"); cl != nil {
		visit(cl)
	}
	if rv != nil {
		for _, c := range rv.Closures {
			visit(c)
		}
	}
	for _, gs := range p.GoStarts() {
		// goroutines started by the start phase run during the run phase
		for _, c := range gs.Callees {
			visit(c)
		}
	}
	return seen
}

func sinkContainer(s Sink) string {
	if s.X == nil {
		return ""
	}
	if _, f, _, ok := FieldOf(s.X); ok {
		return f
	}
	if sl, ok := s.X.(*ssa.Slice); ok {
		if _, f, _, ok := FieldOf(sl.X); ok {
			return f
		}
	}
	return typeName(s.X.Type())
}

func c11GuardRules(c *c11ctx) {
	p, r := c.p, c.r
	t := requestTaint(p, c.rv)
	inv := DeriveLenInvariants(p, runPhaseFuncs(p, c.rv))
	r.Notes = append(r.Notes, inv.Notes...)
	eng := NewGuardEngine(p, t, inv)
	var hs []string
	for _, h := range requestHandlers(p, c.rv) {
		hs = append(hs, FuncName(h))
	}
	r.Notes = append(r.Notes, "C11.R3 taint roots: argument of "+strings.Join(hs, ", "))
	var fk []string
	for k := range t.fields {
		fk = append(fk, k.String())
	}
	sort.Strings(fk)
	r.Notes = append(r.Notes, "C11.R3 request-written fields followed outside the per-channel pipeline: "+strings.Join(fk, ", "))
	for _, fn := range t.TaintedFuncs() {
		sinks := t.Sinks(fn)
		if len(sinks) == 0 {
			continue
		}
		r.Fn(FuncName(fn))
		g := eng.Ctx(fn)
		for _, s := range sinks {
			r.CallSites++
			for _, goal := range g.SinkGoals(s) {
				cons := fmt.Sprintf("%s of %s in %s: %s", s.Kind, sinkContainer(s), FuncName(fn), goal.What)
				o := eng.Discharge(fn, goal.P, goal.NE, s.Instr, 0, map[string]bool{})
				if o.Unsure && !o.OK {
					r.Unk("C11.R3", cons, p.InstrPos(s.Instr), fmt.Sprintf("request-derived value (%s): `%s` not proven, and not decided: %s", t.vals[s.V], goal.What, strings.Join(o.Trail, "; ")))
				} else if o.OK {
					r.OK("C11.R3", cons, p.InstrPos(s.Instr), strings.Join(o.Trail, "; "))
				} else {
					r.Bad("C11.R3", cons, p.InstrPos(s.Instr), fmt.Sprintf("request-derived value (%s) reaches this use without a dominating guard for `%s`: %s", t.vals[s.V], goal.What, strings.Join(o.Trail, "; ")))
				}
			}
		}
	}
}

// startedWithGo: the closure is the target of a go statement of host.
func startedWithGo(host, a *ssa.Function) bool {
	found := false
	Instrs(host, func(in ssa.Instruction) {
		if g, ok := in.(*ssa.Go); ok {
			if mc, ok := g.Call.Value.(*ssa.MakeClosure); ok && mc.Fn == a {
				found = true
			} else if g.Call.Value == ssa.Value(a) {
				found = true
			}
		}
	})
	return found
}
