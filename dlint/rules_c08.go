package main

import (
	"go/constant"
	"fmt"
	"go/token"
	"go/types"
	"regexp"
	"sort"
	"strings"

	"golang.org/x/tools/go/ssa"
)

func init() {
	register(&RuleSet{
		Property: "C08",
		Explanation: "Decides structural clauses of edge-multi triggering: " +
			"(R1) block-boundary independence by construction: the search state carried across the edge loop (previous/current/next edge, next index to inspect) is seeded from the state object's fields and written back to the same fields on the function's exit; the only re-seed is the reset under the `resume index < look-back` guard; " +
			"(R2) record extents: the three gap quantities are min(post, u-t), min(pre, u-t-lastPost), min(post, v-u) with post = nsamp-npre (polynomial congruence of the operands), the variable-length record is (u, npre', npre'+npost'), both fixed-length modes return exactly (u, npre, nsamp), and the isolated mode only when the gap quantities reach the full lengths; records are refused for the sentinel states u==0, u==v, u==t; " +
			"(R3) validity gate: every reconfiguration that changes the lengths or enables the mode ends in the validity check (zero-threshold refinement needs 4 samples on each side, the monotone count fits in the post-trigger part) and is rejected otherwise; " +
			"(R4) window safety: the last searchable index plus the look-ahead equals the last sample (len-1), the look-ahead passed to the edge finder is nsamp-npre, the first searchable index is at least the look-back npre, and the trigger index entering a record specification is proven >= npre (so the record start is never negative, also after the zero-threshold refinement moved the edge one sample earlier); the history kept between blocks is checked under C02.R2. " +
			"Does not decide: equality of the record lists for every block partition, non-overlap as a numeric fact, index safety inside the edge finder beyond the window relation.",
		RuleDocs: []string{
			"C08.R1 E5 carried-state rule on edgeMultiComputeRecordSpecs",
			"C08.R2 E3 congruence of the min() operands and of the returned record specifications per mode",
			"C08.R3 must-pass-through of the validity check in the reconfiguration methods; clauses of valid(), and their combination decided for all 16 truth assignments of the four atoms by conditional constant propagation with the comparisons assumed",
			"C08.R5 every sample read of the edge finder is dominated by the true branch of its search-window test (index <= last); the index stored in the result on a found edge does not use the search-start parameter except through the loop variable",
			"C08.R4 E3 window relation at the edge-finder call; E6 proof of trigger index >= look-back",
			"C08.R6 the step tested by the edge finder is between neighbouring samples: raw[i] - raw[i-1] as polynomials, or a value carried round the loop that is raw[first-1] on entry and the current sample on every way round (including the ways that reject a candidate)",
			"C08.R7 the pending trigger is turned into a record early only when v + nsamp < (the value handed on as the first frame not yet searched), proven from the guards that control the call (also through a predicate helper); guards that establish v + nsamp < end of the data instead are reported (comparisons written in a narrower integer type are read as the values themselves for that evidence only)",
		},
		Assumptions: []string{"EMTState field names and the functions edgeMultiComputeRecordSpecs / edgeMultiShouldRecord / edgeMultiFindNextTriggerInd are name-keyed anchors"},
		Run:         runC08,
	})
}

func runC08(p *Prog, r *Report) {
	r.MinInstances["C08.R1"] = 9
	r.MinInstances["C08.R2"] = 8
	r.MinInstances["C08.R3"] = 5
	r.MinInstances["C08.R4"] = 4
	r.MinInstances["C08.R5"] = 4
	r.MinInstances["C08.R6"] = 1
	c08R1R4(p, r)
	c08R2(p, r)
	c08R3(p, r)
	c08R5(p, r)
	c08R6(p, r)
	c08R7(p, r)
}

func emtField(v ssa.Value) string {
	o, f, _, ok := FieldOf(v)
	if ok && o == "EMTState" {
		return f
	}
	return ""
}

func c08R1R4(p *Prog, r *Report) {
	fn := p.Func("", "EMTState", "edgeMultiComputeRecordSpecs")
	finder := p.Func("", "", "edgeMultiFindNextTriggerInd")
	if fn == nil || finder == nil {
		r.Unk("C08.anchor", "edgeMultiComputeRecordSpecs", "-", "anchor not found")
		return
	}
	r.Fn(FuncName(fn))
	g := NewGuardCtx(p, fn, nil)
	pc := g.PC
	// the edge loop: the block holding the call of the edge finder
	var call *ssa.Call
	Instrs(fn, func(in ssa.Instruction) {
		if c, ok := in.(*ssa.Call); ok && c.Call.StaticCallee() == finder {
			call = c
		}
	})
	if call == nil {
		r.Unk("C08.anchor", "edge finder call", p.Pos(fn.Pos()), "no call of the edge finder")
		return
	}
	// the header of the innermost loop around the call (the call's own block in a bare for { },
	// a separate test block in a conditioned loop)
	header := call.Block()
	for d := call.Block(); d != nil; d = d.Idom() {
		back := false
		for _, pr := range d.Preds {
			if d.Dominates(pr) && (pr == call.Block() || BlockReaches(call.Block(), pr)) {
				back = true
			}
		}
		if back {
			header = d
			break
		}
	}
	var phis []*ssa.Phi
	for _, in := range header.Instrs {
		if ph, ok := in.(*ssa.Phi); ok {
			phis = append(phis, ph)
		}
	}
	// R1: every carried phi except the output accumulator is seeded from a field (or the resume index) and stored back
	seedOf := func(ph *ssa.Phi) (ssa.Value, ssa.Value) {
		var seed, back ssa.Value
		for i, e := range ph.Edges {
			pred := header.Preds[i]
			if header.Dominates(pred) {
				back = e
			} else {
				seed = e
			}
		}
		return seed, back
	}
	want := map[string]string{"t": "t", "u": "u", "v": "v"}
	seen := map[string]bool{}
	for _, ph := range phis {
		name := ph.Comment
		seed, _ := seedOf(ph)
		// a carried edge is known by the state field it starts from, whatever the local is called
		if seed != nil && want[name] == "" {
			if f := emtField(seed); want[f] != "" && !seen[f] {
				name = f
			}
		}
		switch {
		case want[name] != "":
			seen[name] = true
			f := ""
			if seed != nil {
				f = emtField(seed)
			}
			r.Check(f == want[name], "C08.R1", "carried edge "+name+" is seeded from the state field "+want[name], p.Pos(fn.Pos()), "phi("+f+", ...)", "the loop-carried edge `"+name+"` starts from `"+c05Describe(seed, nil, 0)+"` instead of the persistent field: edges found in earlier blocks are forgotten or invented at block boundaries")
		case name == "iFirst":
			seen[name] = true
			// seed: phi(resume - frame0 , look-back) under the reset guard
			d := ""
			if seed != nil {
				d = c05Describe(seed, nil, 0)
			}
			okS := strings.Contains(d, "nextFrameIndexToInspect") && strings.Contains(d, "frameIndexOfraw0")
			r.Check(okS, "C08.R1", "the resume index is derived from the state's next-index-to-inspect", p.Pos(fn.Pos()), d, "the search resumes from `"+d+"`, not from the persistent next-index-to-inspect relative to this block's first frame")
		case name == "recordSpecs":
			// output accumulator: seeded empty, only appended to
		default:
			seed2, _ := seedOf(ph)
			// a flag that only decides whether the loop goes on carries nothing from sample to sample
			onlyControl := true
			for _, ref := range *ph.Referrers() {
				switch x := ref.(type) {
				case *ssa.If:
					if x.Block() != header {
						onlyControl = false
					}
				case *ssa.DebugRef:
				case *ssa.Phi:
					if x != ph {
						onlyControl = false
					}
				default:
					onlyControl = false
				}
			}
			if b, isB := ph.Type().Underlying().(*types.Basic); isB && b.Kind() == types.Bool && onlyControl {
				continue
			}
			if c, ok := seed2.(*ssa.Const); ok {
				r.Bad("C08.R1", "no per-call loop state besides the carried edges", p.Pos(fn.Pos()), "loop-carried local `"+name+"` is seeded with the constant "+c.String()+" on every call: the result depends on the block partition")
			}
		}
	}
	for _, n := range []string{"t", "u", "v", "iFirst"} {
		if !seen[n] {
			r.Unk("C08.R1", "carried state `"+n+"` present in the edge loop", p.Pos(fn.Pos()), "no loop-carried value of the edge loop starts from the state field / resume index `"+n+"` in a form the rule recognises (scalars carried in locals): whether the state is carried across blocks is not decided")
		}
	}
	// stored back on every path to the return
	for _, f := range []string{"t", "u", "v", "nextFrameIndexToInspect"} {
		var sts []*ssa.Store
		for _, st := range StoresTo(fn, "EMTState", f) {
			// skip stores inside reset (callee) — only this function's own
			sts = append(sts, st)
		}
		miss := ReachAvoiding(fn, call, func(in ssa.Instruction) bool {
			for _, st := range sts {
				if in == ssa.Instruction(st) {
					return true
				}
			}
			return false
		}, isReturn)
		r.Check(len(sts) > 0 && len(miss) == 0, "C08.R1", "state field "+f+" is written back before every return", p.Pos(fn.Pos()), "stored on every path from the edge loop to the exit", "a return is reachable from the edge loop without storing `"+f+"`: the next block resumes from stale state")
	}
	// nextFrameIndexToInspect stored = final iFirst + frame0
	for _, st := range StoresTo(fn, "EMTState", "nextFrameIndexToInspect") {
		d := pc.Of(st.Val)
		okN := false
		for _, s := range d.Symbols() {
			if s == "‹frameIndexOfraw0›" && d[s] == 1 {
				okN = true
			}
		}
		r.Check(okN && len(d) == 2, "C08.R1", "the stored resume index is the loop's final index plus this block's first frame", p.InstrPos(st), d.String(), "next-index-to-inspect is stored as "+d.String())
	}
	// the reset is under `iFirst < look-back`
	var resetCall *ssa.Call
	Instrs(fn, func(in ssa.Instruction) {
		if c, ok := in.(*ssa.Call); ok && c.Call.StaticCallee() != nil && c.Call.StaticCallee().Name() == "reset" {
			resetCall = c
		}
	})
	okReset := false
	if resetCall != nil {
		for _, c := range controllingIfs(resetCall.Block()) {
			if _, ly, side, ok := strictLess(c.If.Cond); ok && side == c.Branch && emtField(stripConv(ly)) == "npre" {
				okReset = true
			}
		}
	}
	r.Check(okReset, "C08.R1", "the only re-seed of the state is the reset under `resume index < look-back`", p.Pos(fn.Pos()), "guarded reset", "the state is reset outside the documented guard (or never)")

	// R4: window relation at the call: args (raw, iFirst, iLast, threshold, nmonotone, maxNmonotone, enable)
	args := call.Call.Args
	raw, iLast, maxN := args[0], args[2], args[5]
	recv := "‹" + fn.Params[0].Name() + "›"
	post := polySym(recv + ".nsamp").Sub(polySym(recv + ".npre"))
	r.Check(pc.Of(maxN).Equal(post), "C08.R4", "the look-ahead given to the edge finder is nsamp - npre", p.InstrPos(call), pc.Of(maxN).String(), "the monotone look-ahead is "+pc.Of(maxN).String()+", want "+post.String())
	lastPlus := denarrow(pc, pc.Of(iLast).Add(pc.Of(maxN)))
	wantLast := pc.lenOf(raw).Sub(polyConst(1))
	r.Check(lastPlus.Equal(wantLast), "C08.R4", "last searchable index + look-ahead = last sample index", p.InstrPos(call), lastPlus.String()+" = "+wantLast.String(),
		"last searchable index + look-ahead is "+lastPlus.String()+", the last sample is "+wantLast.String()+": the edge finder reads one sample past the block when an edge sits exactly there")
	// first searchable index >= look-back: prove phi iFirst seed >= npre
	for _, ph := range phis {
		if ph.Comment != "iFirst" {
			continue
		}
		seed, _ := seedOf(ph)
		okF := false
		if seed != nil {
			var at ssa.Instruction = header.Instrs[0]
			_ = at
			// seed is phi(resume, npre) merging the reset guard: prove on its own merge
			if sp, ok := seed.(*ssa.Phi); ok {
				okF = g.Prove(pc.Of(sp).Sub(polySym(recv+".npre")), sp.Block().Instrs[len(sp.Block().Instrs)-1])
			} else {
				okF = g.Prove(pc.Of(seed).Sub(polySym(recv+".npre")), call)
			}
		}
		r.Check(okF, "C08.R4", "the first searchable index is at least the look-back", p.Pos(fn.Pos()), "proven from the reset guard", "the search can start before index npre: the edge finder and the record cut read before the block")
	}
	// the trigger index entering the record specification is >= npre
	var trig ssa.Value
	Instrs(fn, func(in ssa.Instruction) {
		if f, ok := in.(*ssa.Field); ok && f.X == ssa.Value(call) {
			st := derefStruct(f.X.Type())
			if st != nil && st.Field(f.Field).Name() == "triggerInd" {
				trig = f
			}
		}
		if ex, ok := in.(*ssa.Extract); ok && ex.Tuple == ssa.Value(call) {
			_ = ex
		}
	})
	// find the value added to frameIndexOfraw0 to form v
	var vIdx ssa.Value
	var vAt ssa.Instruction
	Instrs(fn, func(in ssa.Instruction) {
		bo, ok := in.(*ssa.BinOp)
		if !ok || bo.Op != token.ADD || !header.Dominates(bo.Block()) {
			return
		}
		if prm, ok := bo.Y.(*ssa.Parameter); ok && prm.Name() == "frameIndexOfraw0" {
			// the operand derived from the finder's result: its triggerInd component
			x := stripConv(bo.X)
			isTrig := dependsOn(bo.X, call)
			if u, ok := x.(*ssa.UnOp); ok && u.Op == token.MUL {
				if fa, ok := u.X.(*ssa.FieldAddr); ok && derefStruct(fa.X.Type()).Field(fa.Field).Name() == "triggerInd" {
					isTrig = true
				}
			}
			if ph, ok := x.(*ssa.Phi); ok {
				for _, e := range ph.Edges {
					if u, ok := stripConv(e).(*ssa.UnOp); ok && u.Op == token.MUL {
						if fa, ok := u.X.(*ssa.FieldAddr); ok && derefStruct(fa.X.Type()).Field(fa.Field).Name() == "triggerInd" {
							isTrig = true
						}
					}
				}
			}
			if isTrig {
				vIdx, vAt = bo.X, bo
			}
		}
	})
	if vIdx == nil {
		r.Unk("C08.R4", "the trigger index entering a record is at least the look-back", p.Pos(fn.Pos()), "could not find where the found edge becomes the next-edge frame (v = index + first frame): the form is not recognised, the lower bound of the trigger index is not decided")
	} else {
		okT := g.Prove(pc.Of(stripConv(vIdx)).Sub(polySym(recv+".npre")), vAt)
		r.Check(okT, "C08.R4", "the trigger index entering a record is at least the look-back", p.InstrPos(vAt), "proven (clamp / guard)", "nothing bounds the refined trigger index from below: with zero-threshold refinement an edge on the first searchable sample is moved to index npre-1 and the record then starts at index -1 (slice bounds out of range in the block-processing goroutine)")
	}
	_ = trig
}

// denarrow replaces narrowing conversions narrowNN(E) by E (the window relation is about the
// mathematical values; block lengths are far below 2^31).
func denarrow(pc *PolyCtx, p Poly) Poly {
	whole := map[string]Poly{}
	for _, s := range p.Symbols() {
		if strings.HasPrefix(s, "narrow") {
			if a := pc.opArgs[s]; len(a) == 1 {
				whole[s] = a[0]
			}
		}
	}
	if len(whole) == 0 {
		return p
	}
	q, _ := substPoly(p, whole, nil)
	return q
}

func dependsOn(v ssa.Value, target ssa.Value) bool {
	seen := map[ssa.Value]bool{}
	var walk func(v ssa.Value, d int) bool
	walk = func(v ssa.Value, d int) bool {
		if v == nil || seen[v] || d > 12 {
			return false
		}
		seen[v] = true
		if v == target {
			return true
		}
		if in, ok := v.(ssa.Instruction); ok {
			for _, op := range in.Operands(nil) {
				if *op != nil && walk(*op, d+1) {
					return true
				}
			}
		}
		return false
	}
	return walk(v, 0)
}

func c08R2(p *Prog, r *Report) {
	fn := p.Func("", "", "edgeMultiShouldRecord")
	if fn == nil {
		r.Unk("C08.R2", "edgeMultiShouldRecord", "-", "anchor not found")
		return
	}
	r.Fn(FuncName(fn))
	pc := NewPolyCtx(fn)
	pc.G = true
	sym := func(n string) Poly { return polySym("‹" + n + "›") }
	post := sym("nsampIn").Sub(sym("npreIn"))
	// the three min() calls in order
	var mins []*ssa.Call
	Instrs(fn, func(in ssa.Instruction) {
		if c, ok := in.(*ssa.Call); ok {
			if b, ok := c.Call.Value.(*ssa.Builtin); ok && b.Name() == "min" {
				mins = append(mins, c)
			} else if callee := c.Call.StaticCallee(); callee != nil && minMaxKind(callee) == "min" {
				mins = append(mins, c)
			}
		}
	})
	argSet := func(c *ssa.Call) []string {
		var out []string
		for _, a := range c.Call.Args {
			out = append(out, pc.Of(a).String())
		}
		sort.Strings(out)
		return out
	}
	eq := func(a []string, b ...Poly) bool {
		var bs []string
		for _, x := range b {
			bs = append(bs, x.String())
		}
		sort.Strings(bs)
		return strings.Join(a, ";") == strings.Join(bs, ";")
	}
	if len(mins) != 3 {
		r.Bad("C08.R2", "the three gap quantities are computed with min()", p.Pos(fn.Pos()), fmt.Sprintf("found %d min() calls, want 3 (last post, pre, post)", len(mins)))
		return
	}
	ut := sym("u").Sub(sym("t"))
	vu := sym("v").Sub(sym("u"))
	lastNPost := pc.Of(mins[0])
	r.Check(eq(argSet(mins[0]), post, ut), "C08.R2", "last post length = min(nsamp-npre, u-t)", p.InstrPos(mins[0]), strings.Join(argSet(mins[0]), " , "), "the previous record's post-trigger share is min("+strings.Join(argSet(mins[0]), ", ")+"), want min(nsamp-npre, u-t): variable-length records overlap the previous record")
	r.Check(eq(argSet(mins[1]), sym("npreIn"), ut.Sub(lastNPost)), "C08.R2", "pre length = min(npre, u-t-lastPost)", p.InstrPos(mins[1]), strings.Join(argSet(mins[1]), " , "), "the pre-trigger length is min("+strings.Join(argSet(mins[1]), ", ")+"), want min(npre, u-t-lastPost)")
	r.Check(eq(argSet(mins[2]), post, vu), "C08.R2", "post length = min(nsamp-npre, v-u)", p.InstrPos(mins[2]), strings.Join(argSet(mins[2]), " , "), "the post-trigger length is min("+strings.Join(argSet(mins[2]), ", ")+"), want min(nsamp-npre, v-u): records extend past the next edge")
	npre := pc.Of(stripConvTo32(mins[1]))
	npost := pc.Of(stripConvTo32(mins[2]))
	// returns
	type retInfo struct {
		spec  [3]Poly
		valid bool
		in    *ssa.Return
		modes []string
	}
	modeName := map[int64]string{}
	if sp := p.pkgOf(""); sp != nil {
		for name, m := range sp.Members {
			if nc, ok := m.(*ssa.NamedConst); ok && strings.HasPrefix(name, "EMTRecords") {
				if v, ok := constInt(nc.Value); ok {
					modeName[v] = name
				}
			}
		}
	}
	Instrs(fn, func(in ssa.Instruction) {
		ret, ok := in.(*ssa.Return)
		if !ok {
			return
		}
		c, isC := ret.Results[1].(*ssa.Const)
		if !isC || c.Value == nil || c.Value.ExactString() != "true" {
			return
		}
		// the RecordSpec value: a load of a local struct filled field by field
		var spec [3]Poly
		if u, ok := ret.Results[0].(*ssa.UnOp); ok {
			if a, ok := u.X.(*ssa.Alloc); ok {
				for _, ref := range *a.Referrers() {
					if fa, ok := ref.(*ssa.FieldAddr); ok {
						for _, r2 := range *fa.Referrers() {
							if st, ok := r2.(*ssa.Store); ok && fa.Field < 3 {
								spec[fa.Field] = pc.Of(st.Val)
							}
						}
					}
				}
			}
		}
		// which mode comparison controls this return
		mode := ""
		for _, cc := range controllingIfs(ret.Block()) {
			if bo, ok := cc.If.Cond.(*ssa.BinOp); ok && bo.Op == token.EQL && cc.Branch == 0 {
				if prm, ok := bo.X.(*ssa.Parameter); ok && prm.Name() == "mode" {
					if k, ok := constInt(bo.Y); ok && mode == "" {
						mode = modeName[k]
					}
				}
			}
		}
		key := "record returned in mode " + mode
		switch mode {
		case "EMTRecordsVariableLength":
			ok3 := spec[0] != nil && spec[0].Equal(sym("u")) && spec[1].Equal(npre) && spec[2].Equal(npre.Add(npost))
			r.Check(ok3, "C08.R2", key+" is (u, pre, pre+post)", p.InstrPos(ret), fmt.Sprint(spec), fmt.Sprintf("variable-length record is %v, want (u, pre, pre+post) with the gap-limited lengths", spec))
		case "EMTRecordsTwoFullLength":
			ok3 := spec[0] != nil && spec[0].Equal(sym("u")) && spec[1].Equal(sym("npreIn")) && spec[2].Equal(sym("nsampIn"))
			r.Check(ok3, "C08.R2", key+" is the full-length record (u, npre, nsamp)", p.InstrPos(ret), fmt.Sprint(spec), fmt.Sprintf("fixed-length mode returns %v, not the configured full lengths", spec))
		case "EMTRecordsFullLengthIsolated":
			ok3 := spec[0] != nil && spec[0].Equal(sym("u")) && spec[1].Equal(sym("npreIn")) && spec[2].Equal(sym("nsampIn"))
			r.Check(ok3, "C08.R2", key+" is the full-length record (u, npre, nsamp)", p.InstrPos(ret), fmt.Sprint(spec), fmt.Sprintf("fixed-length mode returns %v, not the configured full lengths", spec))
			// guarded by npre' >= npreIn && npre'+npost' >= nsampIn
			gctx := NewGuardCtx(p, fn, nil)
			g1 := gctx.Prove(gctx.PC.Of(stripConvTo32(mins[1])).Sub(sym("npreIn")), ret)
			g2 := gctx.Prove(gctx.PC.Of(stripConvTo32(mins[1])).Add(gctx.PC.Of(stripConvTo32(mins[2]))).Sub(sym("nsampIn")), ret)
			r.Check(g1 && g2, "C08.R2", "isolated mode records only when both gaps reach the full lengths", p.InstrPos(ret), "pre' >= npre and pre'+post' >= nsamp dominate the return", "the isolated mode returns a record without requiring the full pre- and post-trigger gaps: contaminated pulses are emitted as full-length records")
		default:
			r.Bad("C08.R2", "record returned under a recognised mode", p.InstrPos(ret), "a record is returned outside the three mode arms")
		}
	})
	// sentinel refusal: u==0 || u==v || u==t leads to (.., false) before any mode arm
	nSent := 0
	Instrs(fn, func(in ssa.Instruction) {
		iff, ok := in.(*ssa.If)
		if !ok {
			return
		}
		bo, ok := iff.Cond.(*ssa.BinOp)
		if !ok || bo.Op != token.EQL {
			return
		}
		x, _ := bo.X.(*ssa.Parameter)
		if x == nil || x.Name() != "u" {
			return
		}
		// true branch reaches only a false-return
		tgt := iff.Block().Succs[0]
		okF := true
		for _, rt := range ReachAvoiding(fn, tgt.Instrs[0], nil, isReturn) {
			ret := rt.(*ssa.Return)
			if c, isC := ret.Results[1].(*ssa.Const); !isC || c.Value.ExactString() != "false" {
				okF = false
			}
		}
		if len(tgt.Instrs) > 0 {
			if ret, ok := tgt.Instrs[len(tgt.Instrs)-1].(*ssa.Return); ok {
				if c, isC := ret.Results[1].(*ssa.Const); !isC || c.Value.ExactString() != "false" {
					okF = false
				}
			}
		}
		if okF {
			nSent++
		}
	})
	r.Check(nSent == 3, "C08.R2", "no record for the sentinel states u==0, u==v, u==t", p.Pos(fn.Pos()), "three refusals", fmt.Sprintf("found %d of the 3 sentinel refusals: an edge is recorded twice (once directly, once around the block corner) or a reset state yields a record", nSent))
}

// stripConvTo32 returns the int32 conversion of a min() result if there is one (the value the code uses).
func stripConvTo32(c *ssa.Call) ssa.Value {
	for _, ref := range *c.Referrers() {
		if cv, ok := ref.(*ssa.Convert); ok {
			return cv
		}
	}
	return c
}

func c08R3(p *Prog, r *Report) {
	valid := p.Func("", "EMTState", "valid")
	if valid == nil {
		r.Unk("C08.R3", "EMTState.valid", "-", "anchor not found")
		return
	}
	r.Fn(FuncName(valid))
	// clauses of valid(): three integer comparisons, each read as the pair of its two outcomes in
	// the normal form P >= 0 (x < y: y-x-1 >= 0 / x-y >= 0), so that the spelling (operand order,
	// negation, early return or one boolean expression) does not matter
	pc := NewPolyCtx(valid)
	clean := func(q Poly) string {
		cl := q.String()
		cl = regexp.MustCompile(`local\d+:`).ReplaceAllString(cl, "")
		cl = regexp.MustCompile(`\{[^}]*\}(@\d+)?`).ReplaceAllString(cl, "")
		return cl
	}
	outcomes := map[string]bool{}
	var clauses []string
	Instrs(valid, func(in ssa.Instruction) {
		bo, ok := in.(*ssa.BinOp)
		if !ok || !isIntLike(bo.X.Type()) {
			return
		}
		x, y := pc.Of(bo.X), pc.Of(bo.Y)
		one := polyConst(1)
		var t, f Poly
		switch bo.Op {
		case token.LSS:
			t, f = y.Sub(x).Sub(one), x.Sub(y)
		case token.LEQ:
			t, f = y.Sub(x), x.Sub(y).Sub(one)
		case token.GTR:
			t, f = x.Sub(y).Sub(one), y.Sub(x)
		case token.GEQ:
			t, f = x.Sub(y), y.Sub(x).Sub(one)
		default:
			return
		}
		outcomes[clean(t)] = true
		outcomes[clean(f)] = true
		clauses = append(clauses, clean(t)+" >= 0 | "+clean(f)+" >= 0")
	})
	sort.Strings(clauses)
	joined := strings.Join(clauses, " ; ")
	// npre >= 4, nsamp - npre >= 4, nsamp - npre >= nmonotone are the accepting outcomes
	okC := outcomes["-4 + s.npre"] && outcomes["-4 - s.npre + s.nsamp"] && outcomes["-s.nmonotone - s.npre + s.nsamp"]
	r.Check(okC, "C08.R3", "validity = 4 samples each side for the refinement, monotone count within the post-trigger part", p.Pos(valid.Pos()), joined, "the validity rule is `"+joined+"`")
	// ... and how the clauses are combined: valid() is decided for every truth assignment of its
	// atoms (refinement enabled; npre >= 4; nsamp-npre >= 4; nmonotone <= nsamp-npre) by conditional
	// constant propagation with the comparisons assumed, and must equal
	// (not enabled or (npre >= 4 and post >= 4)) and monotone-fits
	if okC {
		type atom struct {
			v   ssa.Value
			neg bool // the instruction is true when the atom is false
		}
		atoms := map[string][]atom{}
		canon := map[string]string{"-4 + s.npre": "A", "-4 - s.npre + s.nsamp": "B", "-s.nmonotone - s.npre + s.nsamp": "M"}
		Instrs(valid, func(in ssa.Instruction) {
			switch x := in.(type) {
			case *ssa.BinOp:
				if !isIntLike(x.X.Type()) {
					return
				}
				xp, yp := pc.Of(x.X), pc.Of(x.Y)
				one := polyConst(1)
				var t, f Poly
				switch x.Op {
				case token.LSS:
					t, f = yp.Sub(xp).Sub(one), xp.Sub(yp)
				case token.LEQ:
					t, f = yp.Sub(xp), xp.Sub(yp).Sub(one)
				case token.GTR:
					t, f = xp.Sub(yp).Sub(one), yp.Sub(xp)
				case token.GEQ:
					t, f = xp.Sub(yp), yp.Sub(xp).Sub(one)
				default:
					return
				}
				if a := canon[clean(t)]; a != "" {
					atoms[a] = append(atoms[a], atom{x, false})
				} else if a := canon[clean(f)]; a != "" {
					atoms[a] = append(atoms[a], atom{x, true})
				}
			case *ssa.UnOp:
				if _, f, _, ok := FieldOf(x); ok && f == "enableZeroThreshold" {
					atoms["Z"] = append(atoms["Z"], atom{x, false})
				}
			}
		})
		wrong, undecided := "", false
		if len(atoms["A"]) > 0 && len(atoms["B"]) > 0 && len(atoms["M"]) > 0 && len(atoms["Z"]) > 0 {
			for bits := 0; bits < 16; bits++ {
				val := map[string]bool{"Z": bits&1 != 0, "A": bits&2 != 0, "B": bits&4 != 0, "M": bits&8 != 0}
				env := map[ssa.Value]lat{}
				for name, as := range atoms {
					for _, a := range as {
						env[a.v] = latBool(val[name] != a.neg)
					}
				}
				res := sccp(valid, env)
				got, known, first := false, true, true
				Instrs(valid, func(in ssa.Instruction) {
					ret, ok := in.(*ssa.Return)
					if !ok || !res.Executable(ret) || len(ret.Results) != 1 {
						return
					}
					l := res.Get(ret.Results[0])
					if !l.isConst() || l.c == nil || l.c.Kind() != constant.Bool {
						known = false
						return
					}
					b := constant.BoolVal(l.c)
					if !first && b != got {
						known = false
					}
					got, first = b, false
				})
				if !known || first {
					undecided = true
					continue
				}
				want := (!val["Z"] || (val["A"] && val["B"])) && val["M"]
				if got != want && wrong == "" {
					wrong = fmt.Sprintf("with refinement enabled=%v, npre>=4 %v, post-trigger>=4 %v, monotone count fits %v the state is judged valid=%v (want %v)", val["Z"], val["A"], val["B"], val["M"], got, want)
				}
			}
			switch {
			case wrong != "":
				r.Bad("C08.R3", "the clauses of the validity rule are combined as: (refinement off, or 4 samples on each side) and the monotone count fits", p.Pos(valid.Pos()), wrong+": a state the refinement cannot work on is accepted, and the refinement then reads samples before the start or past the end of the data it is given (index out of range in the block-processing goroutine), depending on where a block boundary falls")
			case undecided:
				r.Unk("C08.R3", "the clauses of the validity rule are combined as: (refinement off, or 4 samples on each side) and the monotone count fits", p.Pos(valid.Pos()), "the result of the validity function is not a constant for some assignment of its four atoms: other conditions take part")
			default:
				r.OK("C08.R3", "the clauses of the validity rule are combined as: (refinement off, or 4 samples on each side) and the monotone count fits", p.Pos(valid.Pos()), "16 assignments of the four atoms evaluated by conditional constant propagation")
			}
		}
	}
	for _, name := range []string{"ConfigureTrigger", "ConfigurePulseLengths"} {
		fn := p.Func("", "DataStreamProcessor", name)
		if fn == nil {
			r.Unk("C08.R3", "DataStreamProcessor."+name, "-", "anchor not found")
			continue
		}
		r.Fn(FuncName(fn))
		var vcall *ssa.Call
		findValid := func(f *ssa.Function) *ssa.Call {
			var out *ssa.Call
			Instrs(f, func(in ssa.Instruction) {
				if c, ok := in.(*ssa.Call); ok && c.Call.StaticCallee() == valid {
					out = c
				}
			})
			return out
		}
		vcall = findValid(fn)
		var tail *ssa.Call // the call through which the check's verdict is returned, when it sits in a helper
		if vcall == nil {
			// the check may sit in a helper method of the processor whose error the configuring
			// function returns as its own
			Instrs(fn, func(in ssa.Instruction) {
				c, ok := in.(*ssa.Call)
				if !ok || vcall != nil {
					return
				}
				h := c.Call.StaticCallee()
				if !isModuleFn(h) || len(c.Call.Args) == 0 || resolveCell(c.Call.Args[0]) != ssa.Value(fn.Params[0]) {
					return
				}
				returned := false
				for _, ref := range *c.Referrers() {
					if ret, isRet := ref.(*ssa.Return); isRet && len(ret.Results) > 0 && ret.Results[len(ret.Results)-1] == ssa.Value(c) {
						returned = true
					}
				}
				if v := findValid(h); v != nil && returned {
					vcall, tail = v, c
				}
			})
			if vcall != nil {
				fn = vcall.Parent()
				r.Fn(FuncName(fn))
			}
		}
		if vcall == nil {
			r.Bad("C08.R3", name+" checks validity", p.Pos(fn.Pos()), "no call of the validity check: an invalid length/threshold combination is accepted and the edge finder indexes outside the block")
			continue
		}
		// from the "invalid" outcome of the check no nil-error return is reachable, and the check
		// is evaluated whenever the mode flag is on
		var invalidEntry *ssa.BasicBlock
		for _, ref := range *vcall.Referrers() {
			switch x := ref.(type) {
			case *ssa.If:
				invalidEntry = x.Block().Succs[1]
			case *ssa.UnOp:
				if x.Op == token.NOT {
					for _, r2 := range *x.Referrers() {
						if iff, ok := r2.(*ssa.If); ok {
							invalidEntry = iff.Block().Succs[0]
						}
					}
				}
			}
		}
		okGate := false
		if invalidEntry != nil && len(invalidEntry.Instrs) > 0 {
			leak := ReachAvoiding(fn, invalidEntry.Instrs[0], nil, isNilErrReturn)
			if isNilErrReturn(invalidEntry.Instrs[len(invalidEntry.Instrs)-1]) && len(invalidEntry.Instrs) == 1 {
				leak = append(leak, invalidEntry.Instrs[0])
			}
			okGate = len(leak) == 0
		}
		onlyMode := true
		for _, c := range controllingIfs(vcall.Block()) {
			d := c05Describe(c.If.Cond, nil, 0)
			if !strings.HasSuffix(d, ".EdgeMulti") || c.Branch != 0 {
				onlyMode = false
			}
		}
		r.Check(okGate && onlyMode, "C08.R3", name+": success is returned only when the new state is valid", p.InstrPos(vcall), "with the mode on, an invalid state always ends in an error return",
			fmt.Sprintf("an invalid state can be accepted (invalid outcome leads only to error returns=%v, check evaluated whenever the mode flag is on=%v)", okGate, onlyMode))
		// the check happens after the state was changed: a store to the EMT/length fields precedes it
		stored := false
		Instrs(fn, func(in ssa.Instruction) {
			if st, ok := in.(*ssa.Store); ok && InstrReaches(st, vcall) {
				if f := emtField(st.Addr); f != "" {
					stored = true
				}
				if _, f, _, ok := FieldOf(st.Addr); ok && (f == "EMTState" || f == "TriggerState" || f == "NSamples") {
					stored = true
				}
			}
			if c, ok := in.(*ssa.Call); ok && c.Call.StaticCallee() != nil && c != vcall && InstrReaches(c, vcall) {
				eff := p.TransEffects(c.Call.StaticCallee(), nil, nil)
				for k := range eff.W {
					if k.Owner == "EMTState" {
						stored = true
					}
				}
			}
		})
		if tail != nil && !stored {
			// stored by the configuring function before it hands over to the helper
			caller := tail.Parent()
			Instrs(caller, func(in ssa.Instruction) {
				if st, ok := in.(*ssa.Store); ok && InstrReaches(st, tail) {
					if f := emtField(st.Addr); f != "" {
						stored = true
					}
					if _, f, _, ok := FieldOf(st.Addr); ok && (f == "EMTState" || f == "TriggerState" || f == "NSamples") {
						stored = true
					}
				}
			})
		}
		r.Check(stored, "C08.R3", name+": the check looks at the new state", p.InstrPos(vcall), "state stored before the check", "the validity check runs before the new values are stored")
	}
}

// ---- R5: the finder reads samples only inside its search window -------------------------------

// c08R5: the caller guarantees the window relation (R4) only for a non-empty window; with fewer
// samples than the look-back the window is empty (first > last) and the finder must not touch
// the data at all.  Every element read of the sample slice in the finder therefore lies inside
// the loop whose header tests the search index against the last index.
func c08R5(p *Prog, r *Report) {
	fn := p.Func("", "", "edgeMultiFindNextTriggerInd")
	if fn == nil || len(fn.Params) == 0 {
		r.Unk("C08.anchor", "edgeMultiFindNextTriggerInd", "-", "anchor not found")
		return
	}
	r.Fn(FuncName(fn))
	raw := fn.Params[0]
	// the search loop: a header whose If compares a phi with a parameter (i <= iLast)
	var hdr *ssa.BasicBlock
	for _, b := range fn.Blocks {
		iff, ok := b.Instrs[len(b.Instrs)-1].(*ssa.If)
		if !ok {
			continue
		}
		bo, ok := iff.Cond.(*ssa.BinOp)
		if !ok || (bo.Op != token.LEQ && bo.Op != token.LSS) {
			continue
		}
		ph, isPhi := bo.X.(*ssa.Phi)
		_, isPrm := bo.Y.(*ssa.Parameter)
		if isPhi && isPrm && ph.Block() == b {
			hdr = b
		}
	}
	if hdr == nil {
		r.Bad("C08.R5", "the finder's search loop", p.Pos(fn.Pos()), "no loop that tests the search index against the last searchable index was found")
		return
	}
	// the reported trigger index depends on where the search started only through the loop
	// variable (the sample at which the edge was found): a direct use of the starting index in the
	// reported index (a clamp to it) makes the result depend on where the previous block ended
	{
		hph := hdr.Instrs[len(hdr.Instrs)-1].(*ssa.If).Cond.(*ssa.BinOp).X.(*ssa.Phi)
		var start ssa.Value
		for i, e := range hph.Edges {
			if !hdr.Dominates(hdr.Preds[i]) {
				start = stripConv(e)
			}
		}
		if prm, isPrm := start.(*ssa.Parameter); isPrm {
			nret := 0
			Instrs(fn, func(in ssa.Instruction) {
				ret, ok := in.(*ssa.Return)
				if !ok || len(ret.Results) == 0 {
					return
				}
				// the value stored into the result's index field on this return
				var idxVals []ssa.Value
				if ld, isLd := returnedValue(ret, 0).(*ssa.UnOp); isLd {
					if al, isAl := ld.X.(*ssa.Alloc); isAl {
						stt := derefStruct(al.Type())
						for _, ref := range *al.Referrers() {
							fa, ok := ref.(*ssa.FieldAddr)
							if !ok || stt == nil || stt.Field(fa.Field).Name() != "triggerInd" {
								continue
							}
							for _, r2 := range *fa.Referrers() {
								if s2, ok := r2.(*ssa.Store); ok && s2.Addr == ssa.Value(fa) {
									idxVals = append(idxVals, s2.Val)
								}
							}
						}
					}
				}
				for _, v := range idxVals {
					if k, isC := constInt(v); isC && k == 0 {
						continue // the not-found return
					}
					nret++
					direct := ""
					seen := map[ssa.Value]bool{}
					var walk func(x ssa.Value, d int)
					walk = func(x ssa.Value, d int) {
						if x == nil || seen[x] || d > 12 || x == ssa.Value(hph) {
							return
						}
						seen[x] = true
						if x == ssa.Value(prm) {
							direct = prm.Name()
							return
						}
						if in2, ok := x.(ssa.Instruction); ok {
							var ops []*ssa.Value
							for _, o := range in2.Operands(ops) {
								walk(*o, d+1)
							}
						}
					}
					walk(v, 0)
					r.Check(direct == "", "C08.R5", "the reported trigger index depends on the search start only through the sample at which the edge was found", p.InstrPos(ret),
						"the index is computed from the loop variable and the samples",
						"the index reported for a found edge uses the search start `"+direct+"` directly (a clamp or offset), not only through the loop variable: the search start is where the previous block's search ended, so the same edge gets a different trigger index depending on how the stream is cut into blocks")
				}
			})
			_ = nret
		}
	}
	body := hdr.Succs[0]
	// a guard before the loop that makes the same test on the loop's starting index (the window
	// is not empty): its non-empty side is as good as the loop body
	var nonEmpty []*ssa.BasicBlock
	{
		hiff := hdr.Instrs[len(hdr.Instrs)-1].(*ssa.If)
		hbo := hiff.Cond.(*ssa.BinOp)
		hph := hbo.X.(*ssa.Phi)
		var first ssa.Value
		for i, e := range hph.Edges {
			if !hdr.Dominates(hdr.Preds[i]) {
				first = e
			}
		}
		last := hbo.Y
		for _, b := range fn.Blocks {
			iff, ok := b.Instrs[len(b.Instrs)-1].(*ssa.If)
			if !ok || b == hdr || first == nil {
				continue
			}
			bo, ok := iff.Cond.(*ssa.BinOp)
			if !ok {
				continue
			}
			side := -1
			switch {
			case bo.X == first && bo.Y == last && bo.Op == token.GTR, bo.X == last && bo.Y == first && bo.Op == token.LSS:
				side = 1
			case bo.X == first && bo.Y == last && bo.Op == token.LEQ, bo.X == last && bo.Y == first && bo.Op == token.GEQ:
				side = 0
			}
			if side >= 0 && len(b.Succs[side].Preds) == 1 {
				nonEmpty = append(nonEmpty, b.Succs[side])
			}
		}
	}
	n := 0
	// reads in the finder and in helpers it hands the sample slice to
	InstrsDeep(fn, 2, func(d DeepInstr) {
		ia, ok := d.In.(*ssa.IndexAddr)
		if !ok || resolveCell(ArgForParam(d.Path, ia.X)) != ssa.Value(raw) {
			return
		}
		n++
		inside := body.Dominates(d.Top.Block())
		for _, ne := range nonEmpty {
			if ne == d.Top.Block() || ne.Dominates(d.Top.Block()) {
				inside = true
			}
		}
		r.Check(inside, "C08.R5", fmt.Sprintf("sample read #%d of the finder is inside the search window test", n), p.InstrPos(ia), "dominated by the true branch of index <= last",
			"the samples are indexed outside the loop that tests the search index against the last searchable index: when the window is empty (fewer samples than the look-back after a reset or a length change) this read is out of range and panics block processing")
	})
	if n == 0 {
		r.Bad("C08.R5", "sample reads of the finder", p.Pos(fn.Pos()), "the finder does not read the sample slice it is given")
	}
}

// ---- R6: the step is taken between neighbouring samples -----------------------------------------

// c08R6: the edge criterion compares the current sample with the one just before it.  In the
// finder's loop the value subtracted from raw[i] is raw[i-1] read in place, or a value carried
// round the loop that is raw[first-1] on entry and the current sample on EVERY way round; a way
// round that carries the old value on (a `continue` that forgets to refresh it) compares the next
// sample with one two back, and the result then depends on where the block ends.
func c08R6(p *Prog, r *Report) {
	fn := p.Func("", "", "edgeMultiFindNextTriggerInd")
	if fn == nil || len(fn.Params) == 0 {
		return
	}
	raw := fn.Params[0]
	pc := NewPolyCtx(fn)
	isSample := func(v ssa.Value) (ssa.Value, bool) { // index of a (converted) element read of raw
		ld, ok := stripConv(v).(*ssa.UnOp)
		if !ok || ld.Op != token.MUL {
			return nil, false
		}
		ia, ok := ld.X.(*ssa.IndexAddr)
		if !ok || resolveCell(ia.X) != ssa.Value(raw) {
			return nil, false
		}
		return ia.Index, true
	}
	n := 0
	Instrs(fn, func(in ssa.Instruction) {
		sub, ok := in.(*ssa.BinOp)
		if !ok || sub.Op != token.SUB || !InLoop(sub) {
			return
		}
		ci, isCur := isSample(sub.X)
		if !isCur {
			return
		}
		// only the step that feeds a comparison (the edge test)
		feeds := false
		for _, ref := range *sub.Referrers() {
			if bo, ok := ref.(*ssa.BinOp); ok {
				switch bo.Op {
				case token.LSS, token.LEQ, token.GTR, token.GEQ:
					feeds = true
				}
			}
		}
		if !feeds {
			return
		}
		n++
		key := "the step of the edge test is the current sample minus the one before it"
		if pi, isPrev := isSample(sub.Y); isPrev {
			r.Check(pc.Of(ci).Sub(pc.Of(pi)).Equal(polyConst(1)), "C08.R6", key, p.InstrPos(sub), "raw[i] - raw[i-1]", "the step is taken between samples that are not neighbours")
			return
		}
		ph, isPhi := stripConv(sub.Y).(*ssa.Phi)
		if !isPhi {
			r.Unk("C08.R6", key, p.InstrPos(sub), "the value subtracted from the current sample is neither raw[i-1] nor a value carried round the loop")
			return
		}
		bad := ""
		for k, e := range ph.Edges {
			pred := ph.Block().Preds[k]
			if !ph.Block().Dominates(pred) {
				// entry: the sample before the first index
				if ei, ok := isSample(e); !ok || !pc.Of(ci).Sub(pc.Of(ei)).Equal(polyConst(1)) {
					// the current index at entry is the loop's first index: compare with phi's entry
					okEntry := false
					if ei2, ok2 := isSample(e); ok2 {
						if cph, isCPhi := stripConv(ci).(*ssa.Phi); isCPhi {
							for j, ce := range cph.Edges {
								if !cph.Block().Dominates(cph.Block().Preds[j]) && pc.Of(ce).Sub(pc.Of(ei2)).Equal(polyConst(1)) {
									okEntry = true
								}
							}
						}
					}
					if !okEntry {
						bad = "on entry the carried value is not the sample before the first index"
					}
				}
				continue
			}
			// a way round: the carried value must be this iteration's current sample
			ev := stripConv(e)
			if ev == ssa.Value(ph) {
				bad = "the way round the loop through " + p.InstrPos(pred.Instrs[len(pred.Instrs)-1]) + " carries the old value on without refreshing it"
				continue
			}
			if q, isQ := ev.(*ssa.Phi); isQ {
				for _, qe := range q.Edges {
					if stripConv(qe) == ssa.Value(ph) {
						bad = "a way round the loop carries the old value on without refreshing it (merged at " + p.InstrPos(q) + ")"
					}
				}
				continue
			}
			if _, ok := isSample(e); !ok && ev != stripConv(sub.X) {
				bad = "the value carried round the loop is not the current sample"
			}
		}
		r.Check(bad == "", "C08.R6", key, p.InstrPos(sub), "carried value = raw[first-1] on entry, the current sample on every way round", bad+": the next sample is then compared with one two back, a rejected glitch is followed by a spurious edge, and the outcome depends on where the block boundary falls")
	})
	if n == 0 {
		r.Unk("C08.R6", "the step of the edge test", p.Pos(fn.Pos()), "no difference of samples feeding a comparison found in the finder's loop")
	}
}

// ---- R7: the pending trigger is turned into a record early only when a whole record lies before the search horizon

// c08R7: after the edge loop the newest trigger v may be recordised at once only if no later
// trigger can fall within one record of it: v + nsamp < X, where X is the first frame not yet
// searched - the very value handed to the record-spec function as "the next possible trigger".
// Proven from the guards that control that call (guard dominance, also through a predicate
// helper); measured against the end of the data instead, the record is cut at the search horizon.
func c08R7(p *Prog, r *Report) {
	fn := p.Func("", "EMTState", "edgeMultiComputeRecordSpecs")
	if fn == nil {
		return
	}
	g := NewGuardCtx(p, fn, nil)
	n := 0
	Instrs(fn, func(in ssa.Instruction) {
		call, ok := in.(*ssa.Call)
		if !ok || InLoop(call) {
			return
		}
		var v, x ssa.Value
		var nsampP Poly
		if call.Call.StaticCallee() != nil && call.Call.StaticCallee().Name() == "edgeMultiShouldRecord" && len(call.Call.Args) >= 5 {
			v, x = call.Call.Args[1], call.Call.Args[2]
			nsampP = g.PC.Of(call.Call.Args[4])
		} else {
			// a local wrapper (closure or helper) that passes its own parameters on to the
			// record-spec function: `recordize(prev, cur, next)`
			var w *ssa.Function
			if mc, isMC := call.Call.Value.(*ssa.MakeClosure); isMC {
				w, _ = mc.Fn.(*ssa.Function)
			} else if sc := call.Call.StaticCallee(); isModuleFn(sc) {
				w = sc
			}
			if w == nil || len(w.Params) != len(call.Call.Args) {
				return
			}
			var inner *ssa.Call
			ninner := 0
			Instrs(w, func(y ssa.Instruction) {
				if c2, ok := y.(*ssa.Call); ok && c2.Call.StaticCallee() != nil && c2.Call.StaticCallee().Name() == "edgeMultiShouldRecord" && len(c2.Call.Args) >= 5 {
					inner = c2
					ninner++
				}
			})
			if ninner != 1 {
				return
			}
			argOf := func(pv ssa.Value) ssa.Value {
				for i, q := range w.Params {
					if ssa.Value(q) == pv {
						return call.Call.Args[i]
					}
				}
				return nil
			}
			v, x = argOf(inner.Call.Args[1]), argOf(inner.Call.Args[2])
			if v == nil || x == nil {
				return
			}
			if a := argOf(inner.Call.Args[4]); a != nil {
				nsampP = g.PC.Of(a)
			} else if _, f, _, okf := FieldOf(inner.Call.Args[4]); okf && f == "nsamp" && len(fn.Params) > 0 {
				nsampP = polySym(g.PC.rootName(fn.Params[0]) + ".nsamp")
			} else {
				return
			}
		}
		n++
		goal := g.PC.Of(x).Sub(g.PC.Of(v)).Sub(nsampP).Sub(polyConst(1))
		key := "the pending trigger is recordised early only when a full record lies before the search horizon"
		if g.Prove(goal, call) {
			r.OK("C08.R7", key, p.InstrPos(call), "v + nsamp < (next frame to inspect) proven from the controlling guards")
			return
		}
		// positive evidence of the other measure: the guards prove v + nsamp < end of data only
		if len(fn.Params) >= 3 {
			var rawPrm, f0 ssa.Value
			for _, prm := range fn.Params {
				if _, isSl := prm.Type().Underlying().(*types.Slice); isSl {
					rawPrm = prm
				} else if isIntLike(prm.Type()) {
					f0 = prm
				}
			}
			if rawPrm != nil && f0 != nil {
				goal2 := g.PC.lenOf(rawPrm).Add(g.PC.Of(f0)).Sub(g.PC.Of(v)).Sub(nsampP).Sub(polyConst(1))
				proven2 := g.Prove(goal2, call)
				if !proven2 {
					// the comparison may be written in a narrower integer type (sample indices as
					// int32): read the conversions as the values themselves, for this evidence only
					savedCache := summaryCache
					summaryCache = map[summaryKey][]Fact{}
					polyIgnoreNarrowing = true
					g2 := NewGuardCtx(p, fn, nil)
					goal2n := g2.PC.lenOf(rawPrm).Add(g2.PC.Of(f0)).Sub(g2.PC.Of(v)).Sub(nsampP).Sub(polyConst(1))
					goal1n := g2.PC.Of(x).Sub(g2.PC.Of(v)).Sub(nsampP).Sub(polyConst(1))
					proven2 = g2.Prove(goal2n, call) && !g2.Prove(goal1n, call)
					polyIgnoreNarrowing = false
					summaryCache = savedCache
				}
				if proven2 {
					r.Bad("C08.R7", key, p.InstrPos(call), "the guards that control the call establish v + nsamp < end of the data, not v + nsamp < first frame not yet searched (the value passed as the next possible trigger): the last samples of a block are unsearched, a trigger there may still follow within one record, so the pending trigger is written too early and its record is cut at the search horizon (or dropped in isolated mode)")
					return
				}
			}
		}
		r.Unk("C08.R7", key, p.InstrPos(call), "could not prove `"+goal.String()+" >= 0` from the guards that control the call: not decided whether the early record is measured against the search horizon")
	})
	if n == 0 {
		r.Unk("C08.R7", "around-the-corner call of the record-spec function", p.Pos(fn.Pos()), "no call of edgeMultiShouldRecord outside the edge loop")
	}
}
