package main

import (
	"flag"
	"fmt"
	"os"
	"runtime/debug"
	"sort"
	"strconv"
	"time"
)

// A Rule set decides (clauses of) one property on one loaded configuration.
type RuleSet struct {
	Property    string
	Explanation string   // what is decided / not decided
	RuleDocs    []string // one line per rule
	Assumptions []string
	Run         func(p *Prog, r *Report)
	Canary      func() map[string]string // file name (relative to repo) -> source; optional
	CanaryKeys  []string                 // substrings of obligation keys that must be violated under the canary overlay
}

var registry = map[string]*RuleSet{}

var debugFuncs = map[string]func(p *Prog){}

func register(rs *RuleSet) { registry[rs.Property] = rs }

func main() {
	prop := flag.String("property", "", "property id (C01..C20)")
	tier := flag.String("tier", "quick", "quick|thorough")
	repo := flag.String("repo", "/repo", "repository root")
	verif := flag.String("verif", "/verif", "verif directory (known_findings.txt, evidence/)")
	list := flag.Bool("list", false, "list properties with rule sets")
	dump := flag.Bool("dump", false, "print every obligation")
	dbg := flag.String("debug", "", "developer dumps (taint, ...)")
	refPatch := flag.String("refactoring", "", "unified diff of a behaviour-preserving change: overlay it and list every rule that reports (all rule sets, or -property)")
	flag.Parse()
	if *refPatch != "" {
		os.Exit(runRefactoringMode(*repo, *verif, *refPatch, *prop))
	}
	if *dbg != "" {
		p, err := Load(LoadConfig{Repo: *repo})
		if err != nil {
			fmt.Println(err)
			os.Exit(2)
		}
		if f := debugFuncs[*dbg]; f != nil {
			f(p)
		}
		return
	}
	if *list {
		var ids []string
		for id := range registry {
			ids = append(ids, id)
		}
		sort.Strings(ids)
		for _, id := range ids {
			fmt.Println(id)
		}
		return
	}
	rs := registry[*prop]
	if rs == nil {
		fmt.Fprintf(os.Stderr, "no rule set for property %q\n", *prop)
		os.Exit(3)
	}
	if t := os.Getenv("VERIF_TIER"); t == "quick" || t == "thorough" {
		*tier = t
	}
	seed := 0
	if s, err := strconv.Atoi(os.Getenv("VERIF_SEED")); err == nil {
		seed = s
	}
	start := time.Now()
	rep := NewReport(*prop, *tier)
	rep.Explanation = rs.Explanation
	rep.RuleDocs = rs.RuleDocs
	rep.Assumptions = rs.Assumptions

	var loadErr error
	func() {
		defer func() {
			if e := recover(); e != nil {
				loadErr = fmt.Errorf("checker panic: %v\n%s", e, debug.Stack())
			}
		}()
		cfgs := []LoadConfig{{Repo: *repo}}
		if *tier == "thorough" {
			cfgs = append(cfgs, LoadConfig{Repo: *repo, Tags: "verif"})
		}
		for i, c := range cfgs {
			p, err := Load(c)
			if err != nil {
				loadErr = err
				return
			}
			rep.Configs = append(rep.Configs, c.String())
			rep.Packages = len(p.Pkgs)
			if i == 0 {
				rs.Run(p, rep)
			} else {
				// further configurations: run into a scratch report and merge only
				// obligations that are not discharged or whose key is new.
				r2 := NewReport(*prop, *tier)
				rs.Run(p, r2)
				have := map[string]bool{}
				for _, o := range rep.Obs {
					have[o.Key] = true
				}
				for _, o := range r2.Obs {
					if !have[o.Key] || o.st != Discharged {
						if have[o.Key] && o.st != Discharged {
							// same key, already reported in the first configuration?
							dup := false
							for _, o1 := range rep.Obs {
								if o1.Key == o.Key && o1.st == o.st {
									dup = true
								}
							}
							if dup {
								continue
							}
						}
						o.Key = o.Key + " [" + c.String() + "]"
						rep.Obs = append(rep.Obs, o)
					}
				}
				for k, v := range r2.MinInstances {
					if _, ok := rep.MinInstances[k]; !ok {
						rep.MinInstances[k] = v
					}
				}
			}
		}
		if *tier == "thorough" && rs.Canary != nil {
			runCanary(rs, *repo, rep)
		}
		if *tier == "thorough" {
			runSeedCanaries(rs, *repo, *verif, rep)
			runRefactoringCanaries(rs, *repo, *verif, rep)
		}
	}()
	if *dump {
		for _, o := range rep.Obs {
			fmt.Printf("%-11s %s  @%s  %s\n", o.Status, o.Key, o.Pos, o.Msg)
		}
	}
	os.Exit(rep.Finish(*verif, seed, start, loadErr))
}

// runCanary loads the repo with one deliberately bad instance per rule overlaid
// (nothing is written into /repo) and checks that the rules fire on exactly those.
func runCanary(rs *RuleSet, repo string, rep *Report) {
	files := rs.Canary()
	ov := map[string][]byte{}
	for name, src := range files {
		ov[repo+"/"+name] = []byte(src)
	}
	rep.CanaryTotal = len(rs.CanaryKeys)
	p, err := Load(LoadConfig{Repo: repo, Overlay: ov})
	if err != nil {
		rep.Canaries = append(rep.Canaries, "canary_unavailable: "+err.Error())
		return
	}
	r2 := NewReport(rs.Property, "canary")
	func() {
		defer func() {
			if e := recover(); e != nil {
				rep.Canaries = append(rep.Canaries, fmt.Sprintf("canary run panicked: %v", e))
			}
		}()
		rs.Run(p, r2)
	}()
	for _, want := range rs.CanaryKeys {
		fired := false
		for _, o := range r2.Obs {
			if o.st == Violated && contains(o.Key, want) {
				fired = true
				break
			}
		}
		if fired {
			rep.CanaryFired++
			rep.Canaries = append(rep.Canaries, "fired: "+want)
		} else {
			rep.Canaries = append(rep.Canaries, "NOT fired: "+want)
			rep.Unk(rs.Property+".canary", want, "-", "the canary (a deliberately bad instance overlaid in memory) was not reported: the rule has gone blind")
		}
	}
}

func contains(s, sub string) bool {
	return len(sub) == 0 || (len(s) >= len(sub) && indexOf(s, sub) >= 0)
}

func indexOf(s, sub string) int {
	for i := 0; i+len(sub) <= len(s); i++ {
		if s[i:i+len(sub)] == sub {
			return i
		}
	}
	return -1
}
