package main

// C15.R7: byte accounting of the TLV items written by the packet encoder.  Every item is
// tag(1) length(1) payload, and the length byte counts units of 8 bytes *including* the two
// leading bytes: the decoder advances by 8*length.  For each tag write in (*Packet).Bytes the
// bytes written up to the next tag (or up to the payload) must sum to exactly 8 * (the value
// written as the length byte), for every value of the slice lengths involved.

import (
	"fmt"
	"go/token"
	"go/types"
	"sort"
	"strings"

	"golang.org/x/tools/go/ssa"
)

type bufWrite struct {
	in   ssa.Instruction
	val  ssa.Value // the value written (interface unwrapped)
	size Poly      // bytes
	desc string
}

// bufWrites lists the writes into the bytes.Buffer of fn in block order.
func bufWrites(pc *PolyCtx, fn *ssa.Function) []bufWrite {
	sizes := types.SizesFor("gc", "amd64")
	var out []bufWrite
	sizeOf := func(v ssa.Value) (Poly, bool) {
		t := v.Type()
		if pt, ok := t.Underlying().(*types.Pointer); ok {
			t = pt.Elem()
		}
		switch u := t.Underlying().(type) {
		case *types.Basic:
			if u.Info()&(types.IsInteger|types.IsFloat) != 0 {
				return polyConst(sizes.Sizeof(u)), true
			}
		case *types.Slice:
			if eb, ok := u.Elem().Underlying().(*types.Basic); ok {
				return pc.lenOf(v).Mul(polyConst(sizes.Sizeof(eb))), true
			}
		case *types.Array:
			if eb, ok := u.Elem().Underlying().(*types.Basic); ok {
				return polyConst(u.Len() * sizes.Sizeof(eb)), true
			}
		}
		return nil, false
	}
	for _, b := range fn.Blocks {
		for _, in := range b.Instrs {
			var v ssa.Value
			switch {
			case IsCallTo(in, "encoding/binary.Write"):
				v = CallOf(in).Args[2]
			case IsCallTo(in, "(*bytes.Buffer).Write"):
				v = CallOf(in).Args[1]
			default:
				continue
			}
			if mi, ok := v.(*ssa.MakeInterface); ok {
				v = mi.X
			}
			sz, ok := sizeOf(v)
			w := bufWrite{in: in, val: v, desc: v.Name()}
			if ok {
				w.size = sz
			}
			out = append(out, w)
		}
	}
	return out
}

// derivesFromField: v is computed from a load of the named field (through type assertions,
// calls, conversions and interface boxing).
func derivesFromField(v ssa.Value, field string, depth int) bool {
	if depth > 8 || v == nil {
		return false
	}
	if _, f, _, ok := FieldOf(v); ok && f == field {
		return true
	}
	switch x := v.(type) {
	case *ssa.TypeAssert:
		return derivesFromField(x.X, field, depth+1)
	case *ssa.Extract:
		return derivesFromField(x.Tuple, field, depth+1)
	case *ssa.MakeInterface:
		return derivesFromField(x.X, field, depth+1)
	case *ssa.ChangeInterface:
		return derivesFromField(x.X, field, depth+1)
	case *ssa.ChangeType:
		return derivesFromField(x.X, field, depth+1)
	case *ssa.Convert:
		return derivesFromField(x.X, field, depth+1)
	case *ssa.Call:
		for _, a := range x.Call.Args {
			if derivesFromField(a, field, depth+1) {
				return true
			}
		}
	case *ssa.Phi:
		for _, e := range x.Edges {
			if derivesFromField(e, field, depth+1) {
				return true
			}
		}
	}
	return false
}

// countingLoop: b lies in a loop `for i := a; i < hi; i++` (header phi, LSS test in the header
// whose true branch enters the body); returns the header and the trip count hi - a.
func countingLoop(pc *PolyCtx, b *ssa.BasicBlock) (hdr *ssa.BasicBlock, trips Poly, ok bool) {
	for d := b; d != nil; d = d.Idom() {
		back := false
		for _, pr := range d.Preds {
			if d.Dominates(pr) && BlockReaches(b, pr) {
				back = true
			}
		}
		if !back {
			continue
		}
		// d is the innermost loop header around b
		iff, isIf := d.Instrs[len(d.Instrs)-1].(*ssa.If)
		if !isIf {
			return d, nil, false
		}
		cmp, isB := iff.Cond.(*ssa.BinOp)
		if !isB || cmp.Op != token.LSS {
			return d, nil, false
		}
		// the range form: next = phi(-1, next) + 1; next < len(s): len(s) trips
		if nx, isNext := cmp.X.(*ssa.BinOp); isNext && nx.Op == token.ADD {
			if ph, isPhi := nx.X.(*ssa.Phi); isPhi && ph.Block() == d && len(ph.Edges) == 2 {
				one, isOne := constInt(nx.Y)
				seeded, carried := false, false
				for i, e := range ph.Edges {
					if d.Dominates(d.Preds[i]) {
						carried = e == ssa.Value(nx)
					} else if k, isC := constInt(e); isC && k == -1 {
						seeded = true
					}
				}
				if isOne && one == 1 && seeded && carried && d.Succs[0].Dominates(b) {
					return d, pc.Of(cmp.Y), true
				}
			}
			return d, nil, false
		}
		ph, isPhi := cmp.X.(*ssa.Phi)
		if !isPhi || ph.Block() != d || len(ph.Edges) != 2 {
			return d, nil, false
		}
		var init ssa.Value
		step := false
		for i, e := range ph.Edges {
			if d.Dominates(d.Preds[i]) {
				bo, isAdd := e.(*ssa.BinOp)
				if isAdd && bo.Op == token.ADD && bo.X == ssa.Value(ph) {
					if k, isC := constInt(bo.Y); isC && k == 1 {
						step = true
					}
				}
			} else {
				init = e
			}
		}
		if init == nil || !step {
			return d, nil, false
		}
		// the body must be the true successor
		if !d.Succs[0].Dominates(b) {
			return d, nil, false
		}
		return d, pc.Of(cmp.Y).Sub(pc.Of(init)), true
	}
	return nil, nil, true // not in a loop
}

// divModNormalise rewrites x (when it occurs as a whole symbol) to c*(x/c) + (x%c) for every
// quotient or remainder symbol of x by a constant c in p, and (x + k*c)/c to k + x/c for x >= 0.
func divModNormalise(pc *PolyCtx, p Poly) Poly {
	// (A + q*c) / c  ->  q + A/c   and   (A + q*c) % c  ->  A % c   for A >= 0 (sums of lengths)
	shift := map[string]Poly{}
	for _, s := range p.Symbols() {
		isDiv, isMod := strings.HasPrefix(s, "/("), strings.HasPrefix(s, "%(")
		args := pc.opArgs[s]
		if !(isDiv || isMod) || len(args) != 2 {
			continue
		}
		c, isC := args[1].IsConst()
		if !isC || c <= 0 {
			continue
		}
		t := args[0][""]
		if t < c {
			continue
		}
		nonneg := true
		for sym, coef := range args[0] {
			if sym != "" && (coef < 0 || !strings.HasPrefix(sym, "len(") || strings.Contains(sym, "*")) {
				nonneg = false
			}
		}
		if !nonneg {
			continue
		}
		q := t / c
		a := args[0].Sub(polyConst(q * c))
		op := "/"
		if isMod {
			op = "%"
		}
		name := strings.ReplaceAll(fmt.Sprintf("%s(%s,%d)", op, a.String(), c), "*", "·")
		pc.opArgs[name] = []Poly{a, polyConst(c)}
		if isDiv {
			shift[s] = polySym(name).Add(polyConst(q))
		} else {
			shift[s] = polySym(name)
		}
	}
	if len(shift) > 0 {
		p, _ = substPoly(p, shift, nil)
	}
	whole := map[string]Poly{}
	for _, s := range p.Symbols() {
		if !(strings.HasPrefix(s, "/(") || strings.HasPrefix(s, "%(")) {
			continue
		}
		args := pc.opArgs[s]
		if len(args) != 2 {
			continue
		}
		c, isC := args[1].IsConst()
		if !isC || c <= 0 {
			continue
		}
		x := args[0]
		if len(x) != 1 {
			continue
		}
		for sym, coef := range x {
			if coef != 1 || sym == "" || strings.Contains(sym, "*") {
				continue
			}
			q := polySym(strings.ReplaceAll(fmt.Sprintf("/(%s,%d)", sym, c), "*", "·"))
			m := polySym(strings.ReplaceAll(fmt.Sprintf("%%(%s,%d)", sym, c), "*", "·"))
			whole[sym] = q.Mul(polyConst(c)).Add(m)
		}
	}
	if len(whole) == 0 {
		return p
	}
	out, _ := substPoly(p, whole, nil)
	return out
}

func c15R7(p *Prog, r *Report) {
	enc := p.Func("packets", "Packet", "Bytes")
	if enc == nil {
		r.Unk("C15.R7", "(*Packet).Bytes", "-", "anchor not found")
		return
	}
	r.Fn(FuncName(enc))
	tagConst := map[int64]string{}
	if sp := p.pkgOf("packets"); sp != nil {
		for name, m := range sp.Members {
			if nc, ok := m.(*ssa.NamedConst); ok && strings.HasPrefix(name, "tlv") {
				if v, ok := constInt(nc.Value); ok && v != 0 && v != 0xff {
					tagConst[v] = name
				}
			}
		}
	}
	inv := DeriveLenInvariants(p, nil)
	g := NewGuardCtx(p, enc, inv)
	pc := g.PC
	ws := bufWrites(pc, enc)
	isTag := func(w bufWrite) (string, bool) {
		c, ok := w.val.(*ssa.Const)
		if !ok || !types.Identical(c.Type().Underlying(), types.Typ[types.Uint8]) {
			return "", false
		}
		n, ok := constInt(c)
		if !ok {
			return "", false
		}
		name, ok := tagConst[n]
		return name, ok
	}
	// the fixed header: the first 6 writes of the entry block (C15.R4 checks them)
	var rest []bufWrite
	nEntry := 0
	for _, w := range ws {
		if w.in.Block() == enc.Blocks[0] && nEntry < 6 {
			nEntry++
			continue
		}
		rest = append(rest, w)
	}
	var tags []int
	for i, w := range rest {
		if _, ok := isTag(w); ok {
			// a tag is followed, in the same block, by a one-byte write (the length)
			if i+1 < len(rest) && rest[i+1].in.Block() == w.in.Block() {
				if c, isC := rest[i+1].size.IsConst(); isC && c == 1 {
					tags = append(tags, i)
				}
			}
		}
	}
	if len(tags) == 0 {
		r.Bad("C15.R7", "TLV items written by the encoder", p.Pos(enc.Pos()), "no tag write found")
		return
	}
	for ti, i := range tags {
		T := rest[i]
		name, _ := isTag(T)
		end := len(rest)
		if ti+1 < len(tags) {
			end = tags[ti+1]
		}
		key := "TLV " + name + ": bytes written = 8 x the length byte"
		L := pc.Of(stripConv(rest[i+1].val)).Mul(polyConst(8))
		total := Poly{}
		var parts []string
		bad := ""
		for _, w := range rest[i:end] {
			if !InstrDominates(T.in, w.in) && w.in != T.in {
				continue // belongs to another branch
			}
			if derivesFromField(w.val, "Data", 0) {
				continue // the payload, not part of the item
			}
			if w.size == nil {
				bad = fmt.Sprintf("size of the write at %s is not known statically", p.InstrPos(w.in))
				break
			}
			hdr, trips, ok := countingLoop(pc, w.in.Block())
			if hdr != nil && hdr.Dominates(T.in.Block()) && hdr != T.in.Block() {
				hdr = nil // the loop contains the whole item
				trips, ok = nil, true
			}
			if !ok {
				bad = fmt.Sprintf("the write at %s is in a loop whose trip count is not of the form hi - lo", p.InstrPos(w.in))
				break
			}
			mult := polyConst(1)
			if hdr != nil && trips != nil {
				if !g.Prove(trips, hdr.Instrs[len(hdr.Instrs)-1]) {
					bad = fmt.Sprintf("trip count %s of the loop around the write at %s is not proven non-negative", trips, p.InstrPos(w.in))
					break
				}
				mult = trips
			} else if w.in.Block() != T.in.Block() {
				// straight-line write in another block: it must execute on every path from the tag to the end of the item
				skip := ReachAvoiding(enc, T.in, func(x ssa.Instruction) bool { return x.Block() == w.in.Block() }, isReturn)
				if len(skip) > 0 {
					bad = fmt.Sprintf("the write at %s is conditional inside the item", p.InstrPos(w.in))
					break
				}
			}
			total = total.Add(w.size.Mul(mult))
			parts = append(parts, w.size.Mul(mult).String())
		}
		if bad != "" {
			r.Bad("C15.R7", key, p.InstrPos(T.in), bad)
			continue
		}
		// pin slice lengths that are provably a constant at their write
		d := divModNormalise(pc, total.Sub(L))
		if !d.IsZero() {
			for _, s := range d.Symbols() {
				if !strings.HasPrefix(s, "len(") {
					continue
				}
				var at ssa.Instruction
				for _, w := range rest[i:end] {
					if w.size != nil {
						for _, ws := range w.size.Symbols() {
							if ws == s {
								at = w.in
							}
						}
					}
				}
				if at == nil {
					continue
				}
				for k := int64(0); k <= 16; k++ {
					if g.Prove(polySym(s).Sub(polyConst(k)), at) && g.Prove(polyConst(k).Sub(polySym(s)), at) {
						d2, _ := substPoly(d, map[string]Poly{s: polyConst(k)}, nil)
						d = d2
						parts = append(parts, fmt.Sprintf("[%s = %d proven]", s, k))
						break
					}
				}
			}
			d = divModNormalise(pc, d)
		}
		// the timestamp item declares the width of its counter in bits (third byte): the decoder
		// masks the counter to that width, so it must be the width of the value written last
		if name == "tlvTIMESTAMPUNIT" && end-i >= 4 {
			last := rest[end-1]
			if nb, isC := constInt(stripConv(rest[i+2].val)); isC && last.size != nil {
				if sz, isK := last.size.IsConst(); isK {
					r.Check(nb == 8*sz, "C15.R7", "TLV "+name+": the declared counter width equals the width of the counter written", p.InstrPos(rest[i+2].in),
						fmt.Sprintf("%d bits declared, %d bytes written", nb, sz),
						fmt.Sprintf("the item declares a %d-bit counter but writes %d bytes of it: the decoder masks the counter to the declared width, so the upper bits of the time stamp are lost on a round trip", nb, sz))
				}
			}
		}
		sort.Strings(parts)
		r.Check(d.IsZero(), "C15.R7", key, p.InstrPos(T.in),
			"sum of the item's writes ("+strings.Join(parts, " + ")+") equals 8 x ("+pc.Of(stripConv(rest[i+1].val)).String()+") identically",
			"bytes written minus 8 x length byte = "+d.String()+" (not identically zero): for some dimension count / field length the decoder, which advances by 8 x the length byte, loses alignment with the items that follow and the payload")
	}
}
