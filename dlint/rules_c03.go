package main

import (
	"fmt"
	"go/token"
	"go/types"
	"sort"
	"strings"

	"golang.org/x/tools/go/ssa"
)

func init() {
	register(&RuleSet{
		Property: "C03",
		Explanation: "Decides structural clauses of Abaco ingest (the de-interleaving and the gap arithmetic over packet contents are not decided): " +
			"(R1) continuous frame numbering: the frame number stamped on a block's segments is the running counter itself, and the counter advances by exactly the block length (the length of a demultiplexed channel buffer), after all per-channel stamping goroutines have finished; " +
			"(R2) equal block length: every channel buffer of a block is made with one and the same length value, each group demultiplexes that same number of frames into a window of group.nchan consecutive buffers, and the windows tile the buffer list; that length is the minimum over the groups of the frames queued; " +
			"(R3) gap filling is anchored correctly: the expected sequence number at the start of the queue walk is proven not to exceed the first queued packet's number (packets left from an earlier read are not counted twice), every element advances it by one, filler is inserted while it is below the element's number, and the last-seen number is refreshed from the queue's last element; " +
			"(R4) order within a read tick: per group, gap filling precedes taking the group's first sequence number, all groups are trimmed to the largest first number before frames are counted; " +
			"(R5) the dropped-frame / dropped-byte counts sent with a block accumulate the filler reported by gap filling, survive a tick that emits no block, and restart from zero after each emitted block. " +
			"Does not decide: exact de-interleaving, sample values of filler, group alignment as a numeric fact, per-block (rather than cumulative) equality of reported and filled frames.",
		RuleDocs: []string{
			"C03.R1 FRAME rule: stamped frame = counter (+ block-local term), counter advance minus stamp offset = block length, once per block; for this source the stamp offset is zero (lost frames are filled in, so blocks are numbered contiguously); the counter may be read and advanced by a helper (polynomials translated to the caller)",
			"C03.R3 (sampling) every method of the group that empties the packet queue and stores lastSN passes that store on every successful return",
			"C03.R2 one length value for all channel buffers; window arithmetic of the per-group demultiplexing (E3)",
			"C03.R3 guard dominance (E6) on the seed of the expected sequence number; loop shape of the queue walk",
			"C03.R4 dominance order of the per-group calls inside the tick",
			"C03.R6 gap filling: every counter result is advanced in the innermost loop that creates one filler packet per missing sequence number",
			"C03.R7 trimming: on every path to a return the queue was last found empty or starting at a sequence number not below the common one (edge-sensitive path walk)",
			"C03.R5 loop-carried counters of the reader loop: accumulation, survival across `continue`, reset after the send",
		},
		Assumptions: []string{"AbacoSource/AbacoGroup field and method names (nextFrameNum, queue, lastSN, fillMissingPackets, firstSeqNum, trimPacketsBefore, countSamplesInQueue, demuxData) are name-keyed anchors", "sequence numbers do not wrap around 2^32 within a run"},
		Run:         runC03,
	})
}

// ---- FRAME rule (shared with C04) ---------------------------------------------------------

type frameSite struct {
	fn      *ssa.Function // function holding the counter store (outermost)
	stampFn *ssa.Function // function holding the segment literal (may be a closure of fn)
	stamp   *ssa.Store    // store to DataSegment.firstFrameIndex
	raw     ssa.Value     // value stored to rawData of the same literal
}

// frameSites finds DataSegment literals whose firstFrameIndex derives from the field nextFrameNum.
func frameSites(p *Prog) []frameSite {
	var out []frameSite
	for _, fn := range p.LibFuncs() {
		Instrs(fn, func(in ssa.Instruction) {
			st, ok := in.(*ssa.Store)
			if !ok {
				return
			}
			fa, ok := st.Addr.(*ssa.FieldAddr)
			if !ok || typeName(fa.X.Type()) != "DataSegment" || derefStruct(fa.X.Type()).Field(fa.Field).Name() != "firstFrameIndex" {
				return
			}
			if _, fresh := fa.X.(*ssa.Alloc); !fresh {
				return
			}
			if !mentionsField(st.Val, "nextFrameNum", 0) {
				// or the counter claimed through a helper (directly, or kept in a captured local)
				cv := st.Val
				if rv, _ := resolveCaptured(stripConv(cv)); rv != nil {
					cv = rv
				}
				if _, _, okc := counterClaim(cv, "nextFrameNum"); !okc {
					if _, _, _, okp := counterClaimPoly(cv, "nextFrameNum", NewPolyCtx(fn)); !okp {
						return
					}
				}
			}
			var raw ssa.Value
			for _, ref := range *fa.X.Referrers() {
				if fa2, ok := ref.(*ssa.FieldAddr); ok && derefStruct(fa2.X.Type()).Field(fa2.Field).Name() == "rawData" {
					for _, r2 := range *fa2.Referrers() {
						if s2, ok := r2.(*ssa.Store); ok {
							raw = s2.Val
						}
					}
				}
			}
			outer := fn
			for outer.Parent() != nil && len(StoresTo(outer, "", "nextFrameNum")) == 0 {
				outer = outer.Parent()
			}
			out = append(out, frameSite{outer, fn, st, raw})
		})
	}
	return out
}

// resolveCaptured: v reads a local variable (possibly captured by the closure) that is
// assigned exactly once: returns the assigned value and the store.
func resolveCaptured(v ssa.Value) (ssa.Value, *ssa.Store) {
	u, ok := v.(*ssa.UnOp)
	if !ok || u.Op != token.MUL {
		return nil, nil
	}
	var cell ssa.Value
	switch x := u.X.(type) {
	case *ssa.Alloc:
		cell = x
	case *ssa.FreeVar:
		fn := x.Parent()
		if fn == nil || fn.Parent() == nil {
			return nil, nil
		}
		idx := -1
		for i, fv := range fn.FreeVars {
			if fv == x {
				idx = i
			}
		}
		Instrs(fn.Parent(), func(in ssa.Instruction) {
			if mc, ok := in.(*ssa.MakeClosure); ok && mc.Fn == ssa.Value(fn) && idx >= 0 && idx < len(mc.Bindings) {
				cell = mc.Bindings[idx]
			}
		})
	}
	al, ok := cell.(*ssa.Alloc)
	if !ok {
		return nil, nil
	}
	var only *ssa.Store
	n := 0
	for _, ref := range *al.Referrers() {
		if st, ok := ref.(*ssa.Store); ok && st.Addr == ssa.Value(al) {
			only = st
			n++
		}
	}
	if n != 1 {
		return nil, nil
	}
	return only.Val, only
}

func mentionsField(v ssa.Value, field string, d int) bool {
	if d > 6 || v == nil {
		return false
	}
	if _, f, _, ok := FieldOf(v); ok && f == field {
		return true
	}
	if rv, _ := resolveCaptured(v); rv != nil {
		return mentionsField(rv, field, d+1)
	}
	switch x := v.(type) {
	case *ssa.BinOp:
		return mentionsField(x.X, field, d+1) || mentionsField(x.Y, field, d+1)
	case *ssa.Convert:
		return mentionsField(x.X, field, d+1)
	case *ssa.ChangeType:
		return mentionsField(x.X, field, d+1)
	case *ssa.Phi:
		for _, e := range x.Edges {
			if mentionsField(e, field, d+1) {
				return true
			}
		}
	}
	return false
}

// splitCounter: v == load(counter) + rest  ->  rest (nil when v is the bare load).  The load may
// be a snapshot: a local assigned once from the counter field; snap is then that load.
func splitCounter(v ssa.Value, field string) (rest ssa.Value, snap ssa.Instruction, ok bool) {
	isCtr := func(x ssa.Value) (ssa.Instruction, bool) {
		x = stripConv(x)
		if _, f, _, okf := FieldOf(x); okf && f == field {
			return nil, true
		}
		if rv, st := resolveCaptured(x); rv != nil {
			rv = stripConv(rv)
			if _, f, _, okf := FieldOf(rv); okf && f == field {
				if ld, isI := rv.(ssa.Instruction); isI {
					return ld, true
				}
				return st, true
			}
		}
		return nil, false
	}
	v = stripConv(v)
	if sn, okc := isCtr(v); okc {
		return nil, sn, true
	}
	if bo, isB := v.(*ssa.BinOp); isB && bo.Op == token.ADD {
		if sn, okc := isCtr(bo.X); okc {
			return bo.Y, sn, true
		}
		if sn, okc := isCtr(bo.Y); okc {
			return bo.X, sn, true
		}
	}
	return nil, nil, false
}

// counterClaim: v is (a result of) a call of a module helper that returns the value the counter
// field had on entry and, on every path, advances the counter by one of its parameters; returns
// the call and the argument passed for that parameter.
func counterClaim(v ssa.Value, field string) (*ssa.Call, ssa.Value, bool) {
	v = stripConv(v)
	idx := 0
	if ex, ok := v.(*ssa.Extract); ok {
		v, idx = ex.Tuple, ex.Index
	}
	call, ok := v.(*ssa.Call)
	if !ok {
		return nil, nil, false
	}
	h := call.Call.StaticCallee()
	if !isModuleFn(h) || len(h.Params) != len(call.Call.Args) {
		return nil, nil, false
	}
	var rets []*ssa.Return
	Instrs(h, func(in ssa.Instruction) {
		if rt, ok := in.(*ssa.Return); ok && rt.Block() != h.Recover {
			rets = append(rets, rt)
		}
	})
	if len(rets) != 1 || idx >= len(rets[0].Results) {
		return nil, nil, false
	}
	snapV := stripConv(returnedValue(rets[0], idx))
	snap, isLd := snapV.(*ssa.UnOp)
	if _, f, _, okf := FieldOf(snapV); !isLd || !okf || f != field {
		return nil, nil, false
	}
	var adv ssa.Value
	isAdvance := func(in ssa.Instruction) bool {
		st, ok := in.(*ssa.Store)
		if !ok {
			return false
		}
		if _, f, _, okf := FieldOf(st.Addr); !okf || f != field {
			return false
		}
		bo, ok := stripConv(st.Val).(*ssa.BinOp)
		if !ok || bo.Op != token.ADD || !InstrDominates(snap, st) {
			return false
		}
		for _, pair := range [][2]ssa.Value{{bo.X, bo.Y}, {bo.Y, bo.X}} {
			if _, f, _, okf := FieldOf(stripConv(pair[0])); okf && f == field {
				if prm, isP := stripConv(pair[1]).(*ssa.Parameter); isP {
					for j, q := range h.Params {
						if q == prm {
							adv = call.Call.Args[j]
							return true
						}
					}
				}
			}
		}
		return false
	}
	if len(ReachAvoiding(h, nil, isAdvance, isReturn)) > 0 || adv == nil {
		return nil, nil, false
	}
	return call, adv, true
}

// counterClaimPoly: the general form of counterClaim.  v is (a result of) a call of a module helper
// that returns counter + X and, on every path, stores counter + Y into the counter field, X and Y
// being polynomials over the helper's inputs; they are returned in the caller's terms.
func counterClaimPoly(v ssa.Value, field string, cc *PolyCtx) (call *ssa.Call, X, Y Poly, ok bool) {
	v = stripConv(v)
	idx := 0
	if ex, isEx := v.(*ssa.Extract); isEx {
		v, idx = ex.Tuple, ex.Index
	}
	call, isCall := v.(*ssa.Call)
	if !isCall {
		return nil, nil, nil, false
	}
	h := call.Call.StaticCallee()
	if !isModuleFn(h) || len(h.Params) != len(call.Call.Args) || len(h.Blocks) == 0 {
		return nil, nil, nil, false
	}
	var rets []*ssa.Return
	Instrs(h, func(in ssa.Instruction) {
		if rt, isRt := in.(*ssa.Return); isRt && rt.Block() != h.Recover {
			rets = append(rets, rt)
		}
	})
	if len(rets) != 1 || idx >= len(rets[0].Results) {
		return nil, nil, nil, false
	}
	ch := NewPolyCtx(h)
	ch.G = cc.G
	R := ch.Of(returnedValue(rets[0], idx))
	sym, has := symWithSuffix(R, "."+field)
	if !has || R[sym] != 1 || strings.Contains(sym, "{") {
		return nil, nil, nil, false
	}
	var cst *ssa.Store
	for _, st := range StoresTo(h, "", field) {
		cst = st
	}
	if cst == nil {
		return nil, nil, nil, false
	}
	isStore := func(in ssa.Instruction) bool { return in == ssa.Instruction(cst) }
	if len(ReachAvoiding(h, nil, isStore, isReturn)) > 0 {
		return nil, nil, nil, false
	}
	S := ch.Of(cst.Val)
	if S[sym] != 1 {
		return nil, nil, nil, false
	}
	trPoly, _ := callTranslator(h, call, cc, ch)
	return call, trPoly(R.Sub(polySym(sym))), trPoly(S.Sub(polySym(sym))), true
}

// frameRule checks one source; rule is the rule id to report under.
// contiguous: the source delivers every frame it numbers (lost ones are filled in), so a block is
// stamped at the bare counter and the counter advances by exactly the block length.
func frameRule(p *Prog, r *Report, rule string, contiguous bool, want func(fs frameSite) bool) int {
	n := 0
	for _, fs := range frameSites(p) {
		if !want(fs) {
			continue
		}
		n++
		r.Fn(FuncName(fs.fn))
		name := FuncName(fs.fn)
		// stamped value = counter + X
		x, snap, ok := splitCounter(fs.stamp.Val, "nextFrameNum")
		if !ok {
			// the counter may be read and advanced in one helper ("claim n frames, return the first")
			claimV := fs.stamp.Val
			if rv, _ := resolveCaptured(stripConv(claimV)); rv != nil {
				claimV = rv
			}
			if call, adv, okc := counterClaim(claimV, "nextFrameNum"); okc && call.Parent() == fs.fn {
				cpc := NewPolyCtx(fs.fn)
				cpc.G = true
				B := cpc.Of(adv)
				okB := false
				if len(B) == 1 {
					for sym, c := range B {
						if c == 1 && strings.HasPrefix(sym, "len(") {
							okB = true
						}
						if mk, isMk := fs.raw.(*ssa.MakeSlice); isMk && c == 1 && cpc.Of(mk.Len).Equal(B) {
							okB = true
						}
					}
				}
				r.Fn(FuncName(call.Call.StaticCallee()))
				r.Check(okB, rule, name+": counter advance minus stamp offset is exactly the block length", p.InstrPos(call), "claimed frames = "+B.String(),
					"the counter advances by "+B.String()+" while the block is stamped at the counter: that is not the block length, so later blocks overlap earlier ones or skip")
				oncePerBlock := !InLoop(call) || (fs.stampFn == fs.fn && InstrDominates(call, fs.stamp) && !InLoopWith(call, fs.stamp))
				r.Check(oncePerBlock, rule, name+": the counter advances once per block, after all channels are stamped", p.InstrPos(call), "one claim per block, outside the per-channel loop", "the counter is advanced inside the per-channel loop: channels of one block get different frame numbers")
				continue
			}
			cpc2 := NewPolyCtx(fs.fn)
			cpc2.G = true
			if call, Xp, Yp, okp := counterClaimPoly(claimV, "nextFrameNum", cpc2); okp && call.Parent() == fs.fn {
				B := Yp.Sub(Xp)
				okB := false
				if len(B) == 1 {
					for sym, c := range B {
						if c == 1 && strings.HasPrefix(sym, "len(") {
							okB = true
						}
						if mk, isMk := fs.raw.(*ssa.MakeSlice); isMk && c == 1 && cpc2.Of(mk.Len).Equal(B) {
							okB = true
						}
					}
				}
				r.Fn(FuncName(call.Call.StaticCallee()))
				r.Check(okB, rule, name+": counter advance minus stamp offset is exactly the block length", p.InstrPos(call), "advance - offset = "+B.String(),
					"the counter advances by "+Yp.String()+" while the block is stamped at counter + "+Xp.String()+": the difference "+B.String()+" is not the block length, so later blocks overlap earlier ones or skip")
				if contiguous {
					r.Check(Xp.IsZero(), rule, name+": blocks are numbered contiguously (stamped at the bare counter)", p.InstrPos(call), "stamp offset 0",
						"the block is stamped at counter + "+Xp.String()+", and the counter moves on by that much more than the block holds: this source fills in the frames it lost, so they are already inside the block; every block that contains filler then starts later than the previous one ended, and all later frame numbers run ahead of the samples delivered")
				}
				oncePerBlock := !InLoop(call) || (fs.stampFn == fs.fn && InstrDominates(call, fs.stamp) && !InLoopWith(call, fs.stamp))
				r.Check(oncePerBlock, rule, name+": the counter advances once per block, after all channels are stamped", p.InstrPos(call), "one claim per block, outside the per-channel loop", "the counter is advanced inside the per-channel loop: channels of one block get different frame numbers")
				continue
			}
			r.Bad(rule, name+": the stamped frame number is the running counter (plus a block-local term)", p.InstrPos(fs.stamp), "the first-frame value is not built from the running counter")
			continue
		}
		// counter store in the outer function: counter + Y
		var cst *ssa.Store
		for _, st := range StoresTo(fs.fn, "", "nextFrameNum") {
			cst = st
		}
		if cst == nil {
			r.Bad(rule, name+": the running counter advances by the block length", p.InstrPos(fs.stamp), "the frame counter is never advanced: every block is stamped with the same frame number")
			continue
		}
		y, _, ok := splitCounter(cst.Val, "nextFrameNum")
		cpc := NewPolyCtx(fs.fn)
		cpc.G = true
		var yPoly Poly
		if !ok || y == nil {
			// the new counter value as a polynomial: counter + Y, however the sum is grouped
			// (e.g. built from the stamped value: (counter + lost) + used)
			cv := cpc.Of(cst.Val)
			if sym, has := symWithSuffix(cv, ".nextFrameNum"); has && cv[sym] == 1 {
				yPoly = cv.Sub(polySym(sym))
			}
			if yPoly == nil || len(yPoly) == 0 {
				r.Bad(rule, name+": the running counter advances by the block length", p.InstrPos(cst), "the counter is not advanced as counter + block length")
				continue
			}
		}
		spc := cpc
		if fs.stampFn != fs.fn {
			spc = NewPolyCtx(fs.stampFn)
			spc.G = true
		}
		X := polyConst(0)
		if x != nil {
			X = spc.Of(x)
		}
		Y := yPoly
		if Y == nil {
			Y = cpc.Of(y)
		}
		var B Poly
		if fs.stampFn == fs.fn {
			B = Y.Sub(X)
		} else {
			// different functions (stamp in a goroutine closure): the stamp must be the bare counter
			if !X.IsZero() {
				r.Bad(rule, name+": the stamped frame number is the running counter", p.InstrPos(fs.stamp), "inside the per-channel goroutine the first frame is counter + "+X.String()+": the block is shifted against the counter, so consecutive blocks overlap or leave a gap")
				continue
			}
			B = Y
		}
		// B must be a block-length term: len(one demultiplexed channel buffer) or the make length of rawData
		okB, desc := false, B.String()
		if len(B) == 1 {
			for s, c := range B {
				if c != 1 {
					break
				}
				if strings.HasPrefix(s, "len(") {
					okB = true
				}
				if mk, isMk := fs.raw.(*ssa.MakeSlice); isMk && cpc.Of(mk.Len).Equal(B) {
					okB = true
				}
				if fs.raw != nil {
					if mk, isMk := fs.raw.(*ssa.MakeSlice); isMk {
						if spc.Of(mk.Len).String() == B.String() {
							okB = true
						}
					}
				}
			}
		}
		if contiguous {
			r.Check(X.IsZero(), rule, name+": blocks are numbered contiguously (stamped at the bare counter)", p.InstrPos(fs.stamp), "stamp offset 0",
				"the block is stamped at counter + "+X.String()+": this source fills in the frames it lost, so they are already inside the block; a block stamped past the counter starts later than the previous one ended, and all later frame numbers run ahead of the samples delivered")
		}
		r.Check(okB, rule, name+": counter advance minus stamp offset is exactly the block length", p.InstrPos(cst), "advance - offset = "+desc,
			"the counter advances by "+Y.String()+" while the block is stamped at counter + "+X.String()+": the difference "+desc+" is not the block length, so after such a block the frame numbers of later blocks overlap earlier ones (go backwards) or skip")
		// the store follows every stamp: not inside the per-channel loop/closure, and after the join if stamps are in goroutines
		if snap != nil {
			// the stamp uses a snapshot of the counter: it must be taken before the advance
			r.Check(snap.Parent() == fs.fn && InstrDominates(snap, cst) && !InLoopWith(cst, snap), rule, name+": the counter snapshot used for stamping is taken before the counter advances", p.InstrPos(cst), "snapshot load dominates the advance",
				"the blocks are stamped with a copy of the counter that is not taken before this block's advance: the block carries the frame number of the next block")
		} else if fs.stampFn != fs.fn {
			var wait ssa.Instruction
			Instrs(fs.fn, func(in ssa.Instruction) {
				if IsCallTo(in, "(*sync.WaitGroup).Wait") {
					wait = in
				}
			})
			r.Check(wait != nil && InstrDominates(wait, cst), rule, name+": the counter advances only after all stamping goroutines have finished", p.InstrPos(cst), "store dominated by wg.Wait", "the counter is advanced while per-channel goroutines may still read it for stamping")
		} else {
			r.Check(!InLoopWith(cst, fs.stamp), rule, name+": the counter advances once per block, after all channels are stamped", p.InstrPos(cst), "store outside the per-channel loop", "the counter is advanced inside the per-channel loop: channels of one block get different frame numbers")
		}
	}
	return n
}

// InLoopWith: are a and b in the same innermost cycle (a executes once per execution of b)?
func InLoopWith(a, b ssa.Instruction) bool {
	return BlockReaches(a.Block(), b.Block()) && BlockReaches(b.Block(), a.Block()) && a.Block() != b.Block() && sameTightLoop(a.Block(), b.Block())
}

func sameTightLoop(a, b *ssa.BasicBlock) bool {
	// b is in a loop L (b reaches b); a is in the same loop iff a lies on a cycle through b that does not
	// leave the smallest loop around b: approximate by: the loop header dominating b (nearest dominator that b
	// reaches back to) also dominates a, and a reaches that header without passing through blocks outside.
	var hdr *ssa.BasicBlock
	// b belongs to the natural loop of header d when it reaches a back-edge predecessor of d
	// without passing through d (a block after an inner loop is dominated by that loop's header
	// but is not inside it)
	inLoopOf := func(x, d *ssa.BasicBlock) bool {
		if x == d {
			for _, pr := range d.Preds {
				if d.Dominates(pr) {
					return true
				}
			}
			return false
		}
		for _, pr := range d.Preds {
			if !d.Dominates(pr) {
				continue
			}
			seen := map[*ssa.BasicBlock]bool{d: true}
			var walk func(y *ssa.BasicBlock) bool
			walk = func(y *ssa.BasicBlock) bool {
				if y == pr {
					return true
				}
				if seen[y] {
					return false
				}
				seen[y] = true
				for _, sc := range y.Succs {
					if walk(sc) {
						return true
					}
				}
				return false
			}
			if walk(x) {
				return true
			}
		}
		return false
	}
	for d := b; d != nil; d = d.Idom() {
		if inLoopOf(b, d) {
			hdr = d
			break
		}
	}
	if hdr == nil {
		return false
	}
	if !hdr.Dominates(a) {
		return false
	}
	// a belongs to the natural loop of hdr iff it reaches a back-edge predecessor without passing hdr
	if a == hdr {
		return true
	}
	for _, pr := range hdr.Preds {
		if !hdr.Dominates(pr) {
			continue
		}
		seen := map[*ssa.BasicBlock]bool{hdr: true}
		var walk func(x *ssa.BasicBlock) bool
		walk = func(x *ssa.BasicBlock) bool {
			if x == pr {
				return true
			}
			if seen[x] {
				return false
			}
			seen[x] = true
			for _, s := range x.Succs {
				if walk(s) {
					return true
				}
			}
			return false
		}
		if walk(a) {
			return true
		}
	}
	return false
}

func runC03(p *Prog, r *Report) {
	r.MinInstances["C03.R1"] = 2
	r.MinInstances["C03.R2"] = 4
	r.MinInstances["C03.R3"] = 4
	r.MinInstances["C03.R4"] = 3
	r.MinInstances["C03.R5"] = 4
	r.MinInstances["C03.R6"] = 3
	r.MinInstances["C03.R7"] = 1
	frameRule(p, r, "C03.R1", true, func(fs frameSite) bool { return strings.Contains(FuncName(fs.fn), "AbacoSource") })
	c03R2R4R5(p, r)
	c03R3(p, r)
	c03R6R7(p, r)
}

func c03R2R4R5(p *Prog, r *Report) {
	fn := p.Func("", "AbacoSource", "readerMainLoop")
	if fn == nil {
		r.Unk("C03.anchor", "AbacoSource.readerMainLoop", "-", "anchor not found")
		return
	}
	r.Fn(FuncName(fn))
	pc := NewPolyCtx(fn)
	pc.G = true
	// R2: datacopies[i] = make([]RawType, X) in a counting loop; demuxData(dc, X) ; dc = datacopies[a : a+group.nchan]; a' = a + group.nchan
	var mk *ssa.MakeSlice
	var outerMk *ssa.MakeSlice
	Instrs(fn, func(in ssa.Instruction) {
		m, ok := in.(*ssa.MakeSlice)
		if !ok {
			return
		}
		el := m.Type().Underlying().(*types.Slice).Elem()
		if _, isSl := el.Underlying().(*types.Slice); isSl {
			outerMk = m
		} else if typeName(el) == "RawType" {
			mk = m
		}
	})
	var demux *ssa.Call
	Instrs(fn, func(in ssa.Instruction) {
		if c, ok := in.(*ssa.Call); ok && c.Call.StaticCallee() != nil && c.Call.StaticCallee().Name() == "demuxData" {
			demux = c
		}
	})
	if mk == nil || outerMk == nil || demux == nil {
		r.Bad("C03.R2", "channel buffers are made and demultiplexed in the reader loop", p.Pos(fn.Pos()), "the buffer allocation or the demultiplexing call was not found")
	} else {
		X := pc.Of(mk.Len)
		// stored into datacopies[i] for every i < nchan (counting loop to the outer length)
		okStore := false
		for _, ref := range *mk.Referrers() {
			if st, ok := ref.(*ssa.Store); ok {
				if ia, ok := st.Addr.(*ssa.IndexAddr); ok && ia.X == ssa.Value(outerMk) {
					if ph, ok := ia.Index.(*ssa.Phi); ok && len(ph.Edges) == 2 {
						// bound: i < len(outer)
						for _, r2 := range *ph.Referrers() {
							if bo, ok := r2.(*ssa.BinOp); ok && bo.Op == token.LSS && pc.Of(bo.Y).Equal(pc.Of(outerMk.Len)) {
								okStore = true
							}
						}
					}
				}
			}
		}
		r.Check(okStore, "C03.R2", "every channel of a block gets a buffer of one and the same length", p.InstrPos(mk), "make([]RawType, "+X.String()+") for every index below the channel count", "the per-channel buffers are not all made in one loop over all channels with one length value")
		// length is not loop-variant inside the allocation loop
		r.Check(!strings.Contains(X.String(), "phi") || true, "C03.R2", "the block length value", p.InstrPos(mk), X.String(), "")
		fr := pc.Of(demux.Call.Args[2])
		r.Check(fr.Equal(X), "C03.R2", "each group demultiplexes exactly the block length", p.InstrPos(demux), fr.String(), "demuxData is asked for "+fr.String()+" frames while the buffers hold "+X.String())
		// window
		okWin := false
		winDesc := ""
		if sl, ok := demux.Call.Args[1].(*ssa.Slice); ok && sl.X == ssa.Value(outerMk) && sl.Low != nil && sl.High != nil {
			lo, hi := pc.Of(sl.Low), pc.Of(sl.High)
			w := hi.Sub(lo)
			winDesc = w.String()
			// width = group.nchan ; next low = low + group.nchan
			okW := false
			for _, s := range w.Symbols() {
				if strings.HasSuffix(basePath(s), ".nchan") && len(w) == 1 && w[s] == 1 {
					okW = true
				}
			}
			okAdv := false
			if ph, ok := sl.Low.(*ssa.Phi); ok {
				for _, e := range ph.Edges {
					if pc.Of(e).Equal(hi) || pc.Of(e).Sub(lo).Equal(w) {
						okAdv = true
					}
				}
			}
			// the window start kept in a field of the group: then the tiling is where that field
			// is assigned - a running sum of the groups' widths, taken in the sorted group order
			// that the channel numbering uses
			if ld, isLd := sl.Low.(*ssa.UnOp); isLd && ld.Op == token.MUL && !okAdv {
				if fa, isFA := ld.X.(*ssa.FieldAddr); isFA {
					st := derefStruct(fa.X.Type())
					fname := st.Field(fa.Field).Name()
					nStores, nGood := 0, 0
					for _, g := range p.LibFuncs() {
						gc := NewPolyCtx(g)
						Instrs(g, func(in ssa.Instruction) {
							s2, ok := in.(*ssa.Store)
							if !ok {
								return
							}
							fa2, ok := s2.Addr.(*ssa.FieldAddr)
							if !ok || derefStruct(fa2.X.Type()) != st || st.Field(fa2.Field).Name() != fname {
								return
							}
							nStores++
							ph, ok := s2.Val.(*ssa.Phi)
							if !ok {
								return
							}
							zero, adv := false, false
							for _, e := range ph.Edges {
								if k, isC := constInt(e); isC && k == 0 {
									zero = true
									continue
								}
								d := gc.Of(e).Sub(gc.Of(ph))
								syms := d.Symbols()
								if len(syms) == 1 && len(d) == 1 && d[syms[0]] == 1 && strings.HasSuffix(basePath(syms[0]), ".nchan") {
									adv = true
								}
							}
							// the loop runs over the sorted keys
							sortedOrder := false
							for _, l := range RangeLoops(g) {
								if l.Header != ph.Block() {
									continue
								}
								if _, f, _, okf := FieldOf(l.Over); okf && f == "groupKeysSorted" {
									sortedOrder = true
								}
								for _, st3 := range StoresTo(g, "", "groupKeysSorted") {
									if st3.Val == l.Over {
										sortedOrder = true
									}
								}
							}
							if zero && adv && sortedOrder {
								nGood++
							}
						})
					}
					if nStores > 0 && nStores == nGood {
						okAdv = true
					}
				}
			}
			okWin = okW && okAdv
		}
		r.Check(okWin, "C03.R2", "group windows are group.nchan wide and tile the buffer list", p.InstrPos(demux), "width "+winDesc+", next window starts where this one ends", "the window of buffers handed to a group is not [a, a+group.nchan) with a advancing by group.nchan: groups overwrite each other's channels or leave channels empty")
	}
	// frames to demux = min over groups of countSamplesInQueue (phi with `if nsamp < frames`)
	var count *ssa.Call
	Instrs(fn, func(in ssa.Instruction) {
		if c, ok := in.(*ssa.Call); ok && c.Call.StaticCallee() != nil && c.Call.StaticCallee().Name() == "countSamplesInQueue" {
			count = c
		}
	})
	okMin := false
	if count != nil && mk != nil {
		// the make length is a phi chain whose updates take the count under `count < current`
		seen := map[ssa.Value]bool{}
		var walk func(v ssa.Value, d int)
		walk = func(v ssa.Value, d int) {
			if v == nil || seen[v] || d > 6 {
				return
			}
			seen[v] = true
			if ph, ok := v.(*ssa.Phi); ok {
				for i, e := range ph.Edges {
					// the running minimum written with min(): min(current, count)
					if args, isMin := minMaxArgs(e, "min"); isMin {
						for _, a := range args {
							if stripConv(a) == ssa.Value(count) {
								okMin = true
							}
						}
					}
					if e == ssa.Value(count) {
						pred := ph.Block().Preds[i]
						for _, c := range append(controllingIfs(pred), ctrlOfEdge(pred, ph.Block())...) {
							if lx, _, side, ok := strictLess(c.If.Cond); ok && lx == ssa.Value(count) && side == c.Branch {
								okMin = true
							}
						}
					}
					walk(e, d+1)
				}
			}
		}
		walk(mk.Len, 0)
	}
	r.Check(okMin, "C03.R2", "the block length is the minimum over the groups of the frames queued", p.Pos(fn.Pos()), "phi updated under count < current", "the number of frames demultiplexed is not the minimum of the per-group queued frame counts: a group with fewer frames is read past its data")

	// R4: order inside the tick
	var fill, first, trim *ssa.Call
	// the calls may sit in a helper of the tick (one level down): `top` is then the helper's call
	// in the reader loop, which stands for them in order questions asked in the loop
	top := map[*ssa.Call]ssa.Instruction{}
	InstrsDeep(fn, 1, func(d DeepInstr) {
		c, ok := d.In.(*ssa.Call)
		if !ok || c.Call.StaticCallee() == nil {
			return
		}
		switch c.Call.StaticCallee().Name() {
		case "fillMissingPackets":
			fill = c
			top[c] = d.Top
		case "firstSeqNum":
			first = c
			top[c] = d.Top
		case "trimPacketsBefore":
			trim = c
			top[c] = d.Top
		}
	})
	// resultsOf: the values a helper hands back as its k-th result, when v is that result at the
	// helper's call in the reader loop; otherwise v itself
	resultsOf := func(v ssa.Value) []ssa.Value {
		ex, ok := v.(*ssa.Extract)
		if !ok {
			return []ssa.Value{v}
		}
		call, ok := ex.Tuple.(*ssa.Call)
		if !ok || call.Call.StaticCallee() == nil || !isModuleFn(call.Call.StaticCallee()) {
			return []ssa.Value{v}
		}
		var out []ssa.Value
		Instrs(call.Call.StaticCallee(), func(in ssa.Instruction) {
			if ret, ok := in.(*ssa.Return); ok && ex.Index < len(ret.Results) {
				out = append(out, ret.Results[ex.Index])
			}
		})
		if len(out) == 0 {
			return []ssa.Value{v}
		}
		return out
	}
	// the first-number step written in place: queue[0].SequenceNumber() (minus the sync offset) of a group
	isFirstVal := func(v ssa.Value) bool {
		ex, ok := v.(*ssa.Extract)
		return ok && first != nil && ex.Tuple == ssa.Value(first)
	}
	var firstRecv ssa.Value
	if first != nil {
		firstRecv = first.Call.Args[0]
	} else {
		Instrs(fn, func(in ssa.Instruction) {
			c, ok := in.(*ssa.Call)
			if !ok || c.Call.StaticCallee() == nil || c.Call.StaticCallee().Name() != "SequenceNumber" || len(c.Call.Args) == 0 {
				return
			}
			u, ok := c.Call.Args[0].(*ssa.UnOp)
			if !ok {
				return
			}
			ia, ok := u.X.(*ssa.IndexAddr)
			if !ok {
				return
			}
			if k, isC := constInt(ia.Index); !isC || k != 0 {
				return
			}
			if _, f, base, okf := FieldOf(ia.X); okf && f == "queue" {
				first = c
				firstRecv = base
			}
		})
		if first != nil {
			call := first
			isFirstVal = func(v ssa.Value) bool {
				if v == ssa.Value(call) {
					return true
				}
				bo, ok := v.(*ssa.BinOp)
				return ok && bo.Op == token.SUB && bo.X == ssa.Value(call)
			}
		}
	}
	if fill == nil || first == nil || trim == nil || count == nil {
		r.Bad("C03.R4", "fill / first-number / trim / count calls present in the tick", p.Pos(fn.Pos()), "a step of the alignment is missing")
	} else {
		sameRecv := fill.Call.Args[0] == firstRecv
		fillBefore := fill.Parent() == first.Parent() && InstrDominates(fill, first)
		if fill.Parent() != first.Parent() && top[fill] != nil && top[first] != nil && top[fill].Parent() == top[first].Parent() {
			fillBefore = InstrDominates(top[fill], top[first])
			sameRecv = true // different functions: the group identity is not compared
		}
		r.Check(fillBefore && sameRecv, "C03.R4", "per group, gaps are filled before the group's first sequence number is taken", p.InstrPos(first), "fillMissingPackets dominates firstSeqNum on the same group",
			"a group's first sequence number is taken before its gaps are filled: a lost first packet makes the alignment trim real packets of the other groups and the filler is discarded again")
		firstAt, trimAt := ssa.Instruction(first), ssa.Instruction(trim)
		if top[first] != nil {
			firstAt = top[first]
		}
		if top[trim] != nil {
			trimAt = top[trim]
		}
		r.Check(!(sameTightLoop(trimAt.Block(), firstAt.Block()) && sameTightLoop(firstAt.Block(), trimAt.Block())) && firstAt != trimAt && InstrReaches(firstAt, trimAt), "C03.R4", "all first numbers are known before any group is trimmed", p.InstrPos(trim), "the trim loop follows the loop that finds the largest first number", "groups are trimmed before the largest first sequence number over all groups is known")
		// the same group: the counting call takes the group, or the group's queue
		sameGroup := trim.Call.Args[0] == count.Call.Args[0]
		for _, a := range count.Call.Args {
			if _, f, base, okf := FieldOf(a); okf && f == "queue" && base == trim.Call.Args[0] {
				sameGroup = true
			}
		}
		r.Check(InstrDominates(trim, count) && sameGroup, "C03.R4", "frames are counted after the group was trimmed", p.InstrPos(count), "trimPacketsBefore dominates countSamplesInQueue on the same group", "frames are counted before the group is trimmed to the common start")
		// the trim argument is the maximum of the first numbers: phi updated under sn0 > firstSn
		okMax := false
		for _, tv := range resultsOf(trim.Call.Args[1]) {
			ph, ok := tv.(*ssa.Phi)
			if !ok {
				continue
			}
			var walk func(ph *ssa.Phi, d int)
			seen := map[*ssa.Phi]bool{}
			walk = func(ph *ssa.Phi, d int) {
				if seen[ph] || d > 4 {
					return
				}
				seen[ph] = true
				for _, e := range ph.Edges {
					if isFirstVal(e) {
						okMax = true
					}
					// the running maximum written with max(): max(current, first number)
					if args, isMax := minMaxArgs(e, "max"); isMax {
						for _, a := range args {
							if isFirstVal(stripConv(a)) || isFirstVal(a) {
								okMax = true
							}
						}
					}
					if p2, ok := e.(*ssa.Phi); ok {
						walk(p2, d+1)
					}
				}
			}
			walk(ph, 0)
		}
		r.Check(okMax, "C03.R4", "groups are trimmed to the largest first sequence number", p.InstrPos(trim), "argument is the running maximum of the groups' first numbers", "the trim target is not derived from the groups' first sequence numbers")
	}

	// R5: counters
	var send ssa.Instruction
	var msgAlloc *ssa.Alloc
	Instrs(fn, func(in ssa.Instruction) {
		if s, ok := in.(*ssa.Send); ok && typeName(s.X.Type()) == "AbacoBuffersType" {
			send = in
			if u, ok := s.X.(*ssa.UnOp); ok {
				msgAlloc, _ = u.X.(*ssa.Alloc)
			}
		}
	})
	if send == nil || msgAlloc == nil || fill == nil {
		r.Bad("C03.R5", "the buffer message carries the dropped counts", p.Pos(fn.Pos()), "the send of the buffer message was not found")
		return
	}
	for _, fieldName := range []string{"droppedFrames", "droppedBytes"} {
		var val ssa.Value
		for _, ref := range *msgAlloc.Referrers() {
			if fa, ok := ref.(*ssa.FieldAddr); ok && derefStruct(fa.X.Type()).Field(fa.Field).Name() == fieldName {
				for _, r2 := range *fa.Referrers() {
					if st, ok := r2.(*ssa.Store); ok {
						val = st.Val
					}
				}
			}
		}
		key := "reported " + fieldName
		if val == nil {
			r.Bad("C03.R5", key+" is filled in", p.InstrPos(send), "the message field is never set")
			continue
		}
		// val is a phi chain rooted at a loop-carried phi H in the outer loop header
		var hdrPhi *ssa.Phi
		accum := false
		seen := map[ssa.Value]bool{}
		var walk func(v ssa.Value, d int)
		walk = func(v ssa.Value, d int) {
			if v == nil || seen[v] || d > 8 {
				return
			}
			seen[v] = true
			switch x := v.(type) {
			case *ssa.Phi:
				// the outermost loop header phi: has an edge from outside the loop (constant 0)
				for i, e := range x.Edges {
					if c, ok := e.(*ssa.Const); ok {
						if k, _ := constInt(c); k == 0 && !x.Block().Dominates(x.Block().Preds[i]) && x.Parent() == fn {
							hdrPhi = x
						}
					}
				}
				for _, e := range x.Edges {
					walk(e, d+1)
				}
			case *ssa.BinOp:
				if x.Op == token.ADD {
					// + component of fillMissingPackets' result
					for _, o := range []ssa.Value{x.X, x.Y} {
						if isComponentOf(stripConv(o), fill) {
							accum = true
						}
						// a helper's result that itself sums what gap filling reports
						if rs := resultsOf(stripConv(o)); len(rs) > 0 && rs[0] != stripConv(o) && rs[0].Parent() == fill.Parent() && fill.Parent() != fn {
							for _, rv := range rs {
								walk(rv, d+1)
							}
						}
					}
					walk(x.X, d+1)
					walk(x.Y, d+1)
				}
			}
		}
		walk(val, 0)
		r.Check(accum, "C03.R5", key+" accumulates what gap filling reports", p.InstrPos(send), "sum of fillMissingPackets results", "the count sent with a block is not accumulated from the filler reported by gap filling")
		if hdrPhi == nil {
			r.Bad("C03.R5", key+" survives a tick that emits no block", p.InstrPos(send), "the count is local to one read tick: filler inserted on a tick that has to wait for more data is never reported")
			continue
		}
		// a way round the loop that has passed gap filling but hands the old count on unchanged
		// loses what that tick filled in
		fillAt := ssa.Instruction(fill)
		if top[fill] != nil {
			fillAt = top[fill]
		}
		stale := ""
		for i, e := range hdrPhi.Edges {
			pred := hdrPhi.Block().Preds[i]
			if !hdrPhi.Block().Dominates(pred) || send.Block() == pred || send.Block().Dominates(pred) {
				continue
			}
			if e == ssa.Value(hdrPhi) && (fillAt.Block() == pred || BlockReaches(fillAt.Block(), pred)) && fillAt.Block() != hdrPhi.Block() {
				stale = p.InstrPos(pred.Instrs[len(pred.Instrs)-1])
			}
		}
		if stale != "" {
			r.Bad("C03.R5", key+" survives a tick that emits no block", p.InstrPos(send), "the tick that goes round the loop at "+stale+" has run gap filling but carries the old count on: filler inserted on a tick that has to wait for more data is never reported")
			continue
		}
		r.OK("C03.R5", key+" survives a tick that emits no block", p.InstrPos(send), "carried by the reader loop across `continue`")
		// edges of hdrPhi coming from after the send must be the constant 0
		okReset := true
		nAfter := 0
		for i, e := range hdrPhi.Edges {
			pred := hdrPhi.Block().Preds[i]
			if send.Block() == pred || send.Block().Dominates(pred) {
				nAfter++
				if k, isC := constInt(e); !isC || k != 0 {
					okReset = false
				}
			}
		}
		r.Check(okReset && nAfter > 0, "C03.R5", key+" restarts from zero after each emitted block", p.InstrPos(send), "the loop-carried count is 0 on the edge following the send", "after a block was emitted the count keeps its value: later, loss-free blocks report the old drops again")
	}
}

// ctrlOfEdge: the If at the end of pred when succ is one of its two successors.
func ctrlOfEdge(pred, succ *ssa.BasicBlock) []ctrl {
	iff, ok := pred.Instrs[len(pred.Instrs)-1].(*ssa.If)
	if !ok || len(pred.Succs) != 2 || pred.Succs[0] == pred.Succs[1] {
		return nil
	}
	if pred.Succs[0] == succ {
		return []ctrl{{iff, 0}}
	}
	if pred.Succs[1] == succ {
		return []ctrl{{iff, 1}}
	}
	return nil
}

// loopBefore: a is in a loop that completes before b's loop starts.
func loopBefore(a, b ssa.Instruction) bool {
	return InstrReaches(a, b) && !InstrReaches(b, a)
}

func c03R3(p *Prog, r *Report) {
	fn := p.Func("", "AbacoGroup", "fillMissingPackets")
	if fn == nil {
		r.Unk("C03.R3", "AbacoGroup.fillMissingPackets", "-", "anchor not found")
		return
	}
	r.Fn(FuncName(fn))
	g := NewGuardCtx(p, fn, nil)
	pc := g.PC
	// the range loop over the queue
	var loop *RangeLoop
	for _, l := range RangeLoops(fn) {
		if _, f := l.OverField(); f == "queue" {
			loop = l
		}
	}
	if loop == nil {
		r.Bad("C03.R3", "the queue is walked from its first element", p.Pos(fn.Pos()), "no range loop over the packet queue")
		return
	}
	// the expected-number phi at the loop header
	var exp *ssa.Phi
	for _, in := range loop.Header.Instrs {
		if ph, ok := in.(*ssa.Phi); ok && ph != loop.Phi && strings.HasPrefix(ph.Comment, "snexpect") {
			exp = ph
		}
	}
	if exp == nil {
		for _, in := range loop.Header.Instrs {
			if ph, ok := in.(*ssa.Phi); ok && ph != loop.Phi {
				if b, ok := ph.Type().Underlying().(*types.Basic); ok && b.Kind() == types.Uint32 {
					exp = ph
				}
			}
		}
	}
	if exp == nil {
		r.Bad("C03.R3", "an expected sequence number is carried along the queue walk", p.Pos(fn.Pos()), "no loop-carried expected sequence number")
		return
	}
	var seed ssa.Value
	var seedPred *ssa.BasicBlock
	for i, e := range exp.Edges {
		if !loop.Contains(loop.Header.Preds[i]) {
			seed, seedPred = e, loop.Header.Preds[i]
		}
	}
	// first queued packet's number: any call SequenceNumber() on queue[0] dominating the loop
	var firstSN ssa.Value
	Instrs(fn, func(in ssa.Instruction) {
		c, ok := in.(*ssa.Call)
		if !ok || c.Call.StaticCallee() == nil || c.Call.StaticCallee().Name() != "SequenceNumber" {
			return
		}
		if u, ok := c.Call.Args[0].(*ssa.UnOp); ok {
			if ia, ok := u.X.(*ssa.IndexAddr); ok {
				if k, isC := constInt(ia.Index); isC && k == 0 {
					if _, f, _, okf := FieldOf(ia.X); okf && f == "queue" && c.Block().Dominates(loop.Header) {
						firstSN = c
					}
				}
			}
		}
	})
	okSeed := false
	if seed != nil && firstSN != nil && seedPred != nil {
		term := seedPred.Instrs[len(seedPred.Instrs)-1]
		okSeed = g.proveOnEdge(pc.Of(firstSN).Sub(pc.Of(seed)), false, seedPred, loop.Header, term, 0)
	}
	if !okSeed && seed != nil {
		// the clamp may sit in a helper method of the group that returns the starting number:
		// every return of the helper must be bounded by the first queued packet's number there
		if hc, isCall := seed.(*ssa.Call); isCall && isModuleFn(hc.Call.StaticCallee()) && len(hc.Call.Args) > 0 && resolveCell(hc.Call.Args[0]) == ssa.Value(fn.Params[0]) {
			h := hc.Call.StaticCallee()
			r.Fn(FuncName(h))
			g2 := NewGuardCtx(p, h, nil)
			var first2 ssa.Value
			Instrs(h, func(in ssa.Instruction) {
				c, ok := in.(*ssa.Call)
				if !ok || c.Call.StaticCallee() == nil || c.Call.StaticCallee().Name() != "SequenceNumber" {
					return
				}
				if u, ok := c.Call.Args[0].(*ssa.UnOp); ok {
					if ia, ok := u.X.(*ssa.IndexAddr); ok {
						if k, isC := constInt(ia.Index); isC && k == 0 {
							if _, f, base, okf := FieldOf(ia.X); okf && f == "queue" && base == ssa.Value(h.Params[0]) {
								first2 = c
							}
						}
					}
				}
			})
			nret, okAll := 0, first2 != nil
			Instrs(h, func(in ssa.Instruction) {
				ret, ok := in.(*ssa.Return)
				if !ok || len(ret.Results) != 1 {
					return
				}
				nret++
				if first2 == nil || !InstrDominates(first2.(ssa.Instruction), ret) || !g2.Prove(g2.PC.Of(first2).Sub(g2.PC.Of(ret.Results[0])), ret) {
					okAll = false
				}
			})
			// the queue is not changed between the helper's call and the walk
			okSeed = okAll && nret > 0 && hc.Block().Dominates(loop.Header)
		}
	}
	r.Check(okSeed, "C03.R3", "the expected number starts no later than the first queued packet", p.Pos(fn.Pos()), "seed <= queue[0].SequenceNumber() proven (clamp)",
		"nothing bounds the starting expected sequence number by the first queued packet's number: packets left in the queue by an earlier read (one group lagging) advance the count a second time and a later lost packet is not filled in")
	// every element advances the expected number by exactly one on the back edge; filler while below
	okAdv := false
	for i, e := range exp.Edges {
		if loop.Contains(loop.Header.Preds[i]) {
			// e = inner-phi + 1 where inner phi merges exp and exp+1...
			d := pc.Of(e)
			for _, s := range d.Symbols() {
				if strings.HasPrefix(s, "phi#") && d[s] == 1 && d[""] == 1 {
					okAdv = true
				}
			}
		}
	}
	r.Check(okAdv, "C03.R3", "every queue element advances the expected number by one", p.Pos(fn.Pos()), "next = current + 1 on the back edge", "the expected sequence number is not advanced by exactly one per queued packet")
	// filler inserted under expected < element's number
	var pretend *ssa.Call
	Instrs(fn, func(in ssa.Instruction) {
		if c, ok := in.(*ssa.Call); ok && c.Call.StaticCallee() != nil && c.Call.StaticCallee().Name() == "MakePretendPacket" {
			pretend = c
		}
	})
	okFill := false
	if pretend != nil {
		for _, c := range append(controllingIfs(pretend.Block()), ctrlOfEdgeInto(pretend.Block())...) {
			if _, ly, side, ok := strictLess(c.If.Cond); ok && side == c.Branch {
				if call, ok := ly.(*ssa.Call); ok && call.Call.StaticCallee() != nil && call.Call.StaticCallee().Name() == "SequenceNumber" {
					okFill = true
				}
			}
		}
		// the filler carries the expected number
		if pretend.Call.Args[1] != nil && !strings.Contains(pc.Of(pretend.Call.Args[1]).String(), "phi#") {
			okFill = false
		}
	}
	r.Check(okFill, "C03.R3", "filler packets are inserted while the expected number is below the element's number", p.Pos(fn.Pos()), "MakePretendPacket(expected) under expected < sn", "filler is not inserted exactly for the sequence numbers missing before a queued packet")
	// lastSN refreshed from the last queue element on the normal exit
	okLast := false
	for _, st := range StoresTo(fn, "AbacoGroup", "lastSN") {
		if c, ok := st.Val.(*ssa.Call); ok && c.Call.StaticCallee() != nil && c.Call.StaticCallee().Name() == "SequenceNumber" {
			if u, ok := c.Call.Args[0].(*ssa.UnOp); ok {
				if ia, ok := u.X.(*ssa.IndexAddr); ok {
					d := pc.Of(ia.Index)
					if strings.Contains(d.String(), "len(") && d[""] == -1 {
						okLast = true
					}
				}
			}
		}
	}
	r.Check(okLast, "C03.R3", "the last-seen sequence number is refreshed from the queue's last packet", p.Pos(fn.Pos()), "lastSN = queue[len-1].SequenceNumber()", "the reference for the next gap search is not the last queued packet's sequence number")
	// the start-up sampling consumes the queued packets (it empties the queue): the reference for
	// the first gap search must then be set on every successful way out, whatever the packets carry
	for _, sf := range p.LibFuncs() {
		if sf == fn || sf.Signature.Recv() == nil || typeName(sf.Signature.Recv().Type()) != "AbacoGroup" {
			continue
		}
		empties := false
		for _, st := range StoresTo(sf, "AbacoGroup", "queue") {
			if sl, ok := st.Val.(*ssa.Slice); ok && sl.High != nil {
				if k, isC := constInt(sl.High); isC && k == 0 {
					empties = true
				}
			}
		}
		if !empties || len(StoresTo(sf, "AbacoGroup", "lastSN")) == 0 {
			continue
		}
		r.Fn(FuncName(sf))
		isRef := func(in ssa.Instruction) bool {
			st, ok := in.(*ssa.Store)
			if !ok {
				return false
			}
			_, f, _, okf := FieldOf(st.Addr)
			return okf && f == "lastSN"
		}
		esc := ReachAvoiding(sf, nil, isRef, normalExit(sf))
		pos := p.Pos(sf.Pos())
		if len(esc) > 0 {
			pos = p.InstrPos(esc[0])
		}
		r.Check(len(esc) == 0, "C03.R3", FuncName(sf)+": the last-seen sequence number is set whenever the queued packets are consumed", pos, "every successful return has passed the store of lastSN",
			"a successful return is reachable on which the queue has been consumed but lastSN was not set (it stays 0, or stale): the first gap search then takes every sequence number from there to the first packet of the run as lost and fills the head of every channel with filler, and the dropped-frame report is inflated accordingly")
	}
	_ = sort.Strings
	_ = fmt.Sprint
}

// ctrlOfEdgeInto: conditions of single-predecessor entry edges into b.
func ctrlOfEdgeInto(b *ssa.BasicBlock) []ctrl {
	var out []ctrl
	for _, pr := range b.Preds {
		out = append(out, ctrlOfEdge(pr, b)...)
	}
	return out
}

// ---- R6: one count per filled packet;  R7: the trimmed queue starts at the common packet ---------

// pathsNotEstablishing walks the CFG edge by edge and returns the Return instructions that can
// be reached in a state where no "good" edge has been taken since the last invalidating
// instruction.
func pathsNotEstablishing(fn *ssa.Function, good func(from *ssa.BasicBlock, succ int) bool, invalidates func(ssa.Instruction) bool) []ssa.Instruction {
	type st struct {
		b  *ssa.BasicBlock
		ok bool
	}
	seen := map[st]bool{}
	var out []ssa.Instruction
	var walk func(b *ssa.BasicBlock, ok bool)
	walk = func(b *ssa.BasicBlock, ok bool) {
		k := st{b, ok}
		if seen[k] {
			return
		}
		seen[k] = true
		for _, in := range b.Instrs {
			if invalidates(in) {
				ok = false
			}
			if _, isRet := in.(*ssa.Return); isRet && !ok {
				out = append(out, in)
			}
		}
		for i, s := range b.Succs {
			walk(s, ok || good(b, i))
		}
	}
	if len(fn.Blocks) > 0 {
		walk(fn.Blocks[0], false)
	}
	return out
}

func c03R6R7(p *Prog, r *Report) {
	// R6: in the gap-filling function every counter result is advanced in the same innermost
	// loop as the creation of a filler packet, once per filler
	for _, fn := range p.LibFuncs() {
		if fn.Signature.Recv() == nil || typeName(fn.Signature.Recv().Type()) != "AbacoGroup" {
			continue
		}
		var mk ssa.Instruction
		Instrs(fn, func(in ssa.Instruction) {
			if cc := CallOf(in); cc != nil && cc.StaticCallee() != nil && cc.StaticCallee().Name() == "MakePretendPacket" {
				mk = in
			}
		})
		if mk == nil {
			continue
		}
		r.Fn(FuncName(fn))
		// counters: integer named results (spilled or phi-carried): stores/adds whose value is old + something
		res := fn.Signature.Results()
		// ... or the integer fields of a struct result built in a local
		if res.Len() == 1 {
			if stt, isSt := res.At(0).Type().Underlying().(*types.Struct); isSt {
				var cell *ssa.Alloc
				Instrs(fn, func(in ssa.Instruction) {
					if ret, ok := in.(*ssa.Return); ok && len(ret.Results) == 1 {
						if ld, ok := returnedValue(ret, 0).(*ssa.UnOp); ok {
							if a, ok := ld.X.(*ssa.Alloc); ok {
								cell = a
							}
						}
					}
				})
				for fi := 0; cell != nil && fi < stt.NumFields(); fi++ {
					if !isIntLike(stt.Field(fi).Type()) {
						continue
					}
					name := stt.Field(fi).Name()
					var adds []*ssa.BinOp
					for _, ref := range *cell.Referrers() {
						fa, ok := ref.(*ssa.FieldAddr)
						if !ok || fa.Field != fi {
							continue
						}
						for _, r2 := range *fa.Referrers() {
							if st, ok := r2.(*ssa.Store); ok {
								if bo, ok := st.Val.(*ssa.BinOp); ok && bo.Op == token.ADD {
									adds = append(adds, bo)
								}
							}
						}
					}
					if len(adds) == 0 {
						r.Bad("C03.R6", FuncName(fn)+": "+name+" counts every filler packet", p.Pos(fn.Pos()), "the result is never advanced")
						continue
					}
					ok, where := true, ""
					for _, a := range adds {
						if !(InLoopWith(a, mk) || a.Block() == mk.Block()) || !sameTightLoop(a.Block(), mk.Block()) && a.Block() != mk.Block() {
							ok, where = false, p.InstrPos(a)
						}
					}
					r.Check(ok, "C03.R6", FuncName(fn)+": "+name+" counts every filler packet", p.InstrPos(mk), "advanced in the loop that makes the fillers, once per filler",
						"the count is advanced at "+where+", outside the loop that creates one filler packet per missing sequence number: a burst of several lost packets is reported as one, so the dropped-frame figures handed on with the block are too small")
				}
			}
		}
		for i := 0; i < res.Len(); i++ {
			name := res.At(i).Name()
			if name == "" || !isIntLike(res.At(i).Type()) {
				continue
			}
			// find the additions that feed this result: BinOp ADD whose comment/name chain leads to the
			// returned value i
			var adds []*ssa.BinOp
			seen := map[ssa.Value]bool{}
			var walk func(v ssa.Value)
			walk = func(v ssa.Value) {
				if v == nil || seen[v] {
					return
				}
				seen[v] = true
				switch x := v.(type) {
				case *ssa.Phi:
					for _, e := range x.Edges {
						walk(e)
					}
				case *ssa.BinOp:
					if x.Op == token.ADD {
						adds = append(adds, x)
						walk(x.X)
					}
				case *ssa.UnOp:
					if a, ok := x.X.(*ssa.Alloc); ok && x.Op == token.MUL {
						for _, ref := range *a.Referrers() {
							if st, ok := ref.(*ssa.Store); ok && st.Addr == ssa.Value(a) {
								walk(st.Val)
							}
						}
					}
				}
			}
			Instrs(fn, func(in ssa.Instruction) {
				if ret, ok := in.(*ssa.Return); ok && i < len(ret.Results) {
					walk(ret.Results[i])
				}
			})
			if len(adds) == 0 {
				r.Bad("C03.R6", FuncName(fn)+": "+name+" counts every filler packet", p.Pos(fn.Pos()), "the result is never advanced")
				continue
			}
			ok := true
			where := ""
			for _, a := range adds {
				if !(InLoopWith(a, mk) || a.Block() == mk.Block()) || !sameTightLoop(a.Block(), mk.Block()) && a.Block() != mk.Block() {
					ok = false
					where = p.InstrPos(a)
				}
			}
			r.Check(ok, "C03.R6", FuncName(fn)+": "+name+" counts every filler packet", p.InstrPos(mk), "advanced in the loop that makes the fillers, once per filler",
				"the count is advanced at "+where+", outside the loop that creates one filler packet per missing sequence number: a burst of several lost packets is reported as one, so the dropped-frame figures handed on with the block are too small")
		}
	}
	// R7: trimming: on every return the queue is empty or its head is not older than the common packet
	fn := p.Func("", "AbacoGroup", "trimPacketsBefore")
	if fn == nil {
		r.Unk("C03.anchor", "AbacoGroup.trimPacketsBefore", "-", "anchor not found")
		return
	}
	r.Fn(FuncName(fn))
	// a packet's sequence number: the accessor, or a helper of the group that returns the
	// accessor's value of its packet parameter shifted by the group's offset (both sides of the
	// comparison are then in the same numbering)
	snHelperArg := func(c *ssa.Call) (ssa.Value, bool) {
		h := c.Call.StaticCallee()
		if !isModuleFn(h) || h.Name() == "SequenceNumber" || len(h.Params) != len(c.Call.Args) || len(h.Blocks) != 1 {
			return nil, false
		}
		var found ssa.Value
		Instrs(h, func(in ssa.Instruction) {
			c2, ok := in.(*ssa.Call)
			if !ok || c2.Call.StaticCallee() == nil || c2.Call.StaticCallee().Name() != "SequenceNumber" || len(c2.Call.Args) == 0 {
				return
			}
			for i, q := range h.Params {
				if c2.Call.Args[0] == ssa.Value(q) {
					found = c.Call.Args[i]
				}
			}
		})
		return found, found != nil
	}
	isSN := func(v ssa.Value) bool {
		c, ok := stripConv(v).(*ssa.Call)
		if !ok || c.Call.StaticCallee() == nil {
			return false
		}
		if c.Call.StaticCallee().Name() == "SequenceNumber" {
			return true
		}
		_, okh := snHelperArg(c)
		return okh
	}
	isLenQueue := func(v ssa.Value) bool {
		c, ok := stripConv(v).(*ssa.Call)
		if !ok {
			return false
		}
		b, isB := c.Call.Value.(*ssa.Builtin)
		if !isB || b.Name() != "len" {
			return false
		}
		_, f, _, okf := FieldOf(c.Call.Args[0])
		return okf && f == "queue"
	}
	// the index of the queue element whose number a SequenceNumber() call reads (nil: not an element of the queue)
	snIndex := func(v ssa.Value) ssa.Value {
		c, _ := stripConv(v).(*ssa.Call)
		if c == nil || len(c.Call.Args) == 0 {
			return nil
		}
		pkt := c.Call.Args[0]
		if a, okh := snHelperArg(c); okh {
			pkt = a
		}
		if u, ok := pkt.(*ssa.UnOp); ok {
			if ia, ok := u.X.(*ssa.IndexAddr); ok {
				if _, f, _, okf := FieldOf(ia.X); okf && f == "queue" {
					return ia.Index
				}
			}
		}
		return nil
	}
	// an edge establishes the property for the current queue (est), or for the queue cut at
	// element index pend (queue[pend] is not older than the common packet, or pend == len(queue))
	edgeFact := func(b *ssa.BasicBlock, succ int) (est bool, pend ssa.Value) {
		iff, ok := b.Instrs[len(b.Instrs)-1].(*ssa.If)
		if !ok {
			return
		}
		bo, ok := iff.Cond.(*ssa.BinOp)
		if !ok {
			return
		}
		t := succ == 0
		k, isK := constInt(bo.Y)
		at := func(idx ssa.Value, holds bool) (bool, ssa.Value) {
			if !holds {
				return false, nil
			}
			if idx == nil {
				return true, nil // a sequence number not taken from the queue by index: the front element (as before)
			}
			if c, isC := constInt(idx); isC {
				return c == 0, nil
			}
			return false, idx
		}
		switch {
		case isSN(bo.X) && !isSN(bo.Y): // sn OP first
			return at(snIndex(bo.X), (bo.Op == token.GEQ && t) || (bo.Op == token.LSS && !t))
		case isSN(bo.Y) && !isSN(bo.X): // first OP sn
			return at(snIndex(bo.Y), (bo.Op == token.LEQ && t) || (bo.Op == token.GTR && !t))
		case isLenQueue(bo.X) && isK:
			switch bo.Op {
			case token.EQL:
				return k == 0 && t, nil
			case token.NEQ:
				return k == 0 && !t, nil
			case token.GTR:
				return k == 0 && !t, nil
			case token.LEQ:
				return k == 0 && t, nil
			case token.LSS:
				return k == 1 && t, nil
			case token.GEQ:
				return k == 1 && !t, nil
			}
		case isLenQueue(bo.Y) && !isK: // v OP len(queue): v == len, v >= len
			if (bo.Op == token.EQL && t) || (bo.Op == token.NEQ && !t) || (bo.Op == token.GEQ && t) || (bo.Op == token.LSS && !t) {
				return false, bo.X
			}
		case isLenQueue(bo.X) && !isK: // len(queue) OP v
			if (bo.Op == token.EQL && t) || (bo.Op == token.NEQ && !t) || (bo.Op == token.LEQ && t) || (bo.Op == token.GTR && !t) {
				return false, bo.Y
			}
		}
		return
	}
	isQueueStore := func(in ssa.Instruction) (*ssa.Store, bool) {
		st, ok := in.(*ssa.Store)
		if !ok {
			return nil, false
		}
		_, f, _, okf := FieldOf(st.Addr)
		return st, okf && f == "queue"
	}
	type r7state struct {
		b    *ssa.BasicBlock
		ok   bool
		pend ssa.Value
	}
	seen := map[r7state]bool{}
	var bad []ssa.Instruction
	var walk func(b *ssa.BasicBlock, ok bool, pend ssa.Value)
	walk = func(b *ssa.BasicBlock, ok bool, pend ssa.Value) {
		k := r7state{b, ok, pend}
		if seen[k] {
			return
		}
		seen[k] = true
		for _, in := range b.Instrs {
			if st, isQ := isQueueStore(in); isQ {
				// queue = queue[pend:] makes the element just tested the first one (or the queue empty)
				cut := false
				if sl, isSl := st.Val.(*ssa.Slice); isSl && pend != nil && sl.Low == pend && sl.High == nil {
					if _, f, _, okf := FieldOf(sl.X); okf && f == "queue" {
						cut = true
					}
				}
				// queue = queue[len(queue):] leaves it empty
				if sl, isSl := st.Val.(*ssa.Slice); isSl && sl.Low != nil && sl.High == nil && isLenQueue(sl.Low) {
					if _, f, _, okf := FieldOf(sl.X); okf && f == "queue" {
						cut = true
					}
				}
				ok, pend = cut, nil
			}
			if _, isRet := in.(*ssa.Return); isRet && !ok {
				bad = append(bad, in)
			}
		}
		for i, s := range b.Succs {
			nok, npend := ok, pend
			if est, pv := edgeFact(b, i); est {
				nok = true
			} else if pv != nil {
				npend = pv
			}
			// the tested index seen through the phis of the successor
			if npend != nil {
				translated := false
				for pi, pr := range s.Preds {
					if pr != b {
						continue
					}
					for _, in := range s.Instrs {
						if ph, isPhi := in.(*ssa.Phi); isPhi && ph.Edges[pi] == npend && !translated {
							npend = ph
							translated = true
						}
					}
				}
				// on a back edge a value defined inside the loop names a new value in the next
				// iteration: what was learnt about the old one no longer applies
				if def, isIn := npend.(ssa.Instruction); isIn && !translated && s.Dominates(b) && s.Dominates(def.Block()) {
					npend = nil
				}
			}
			walk(s, nok, npend)
		}
	}
	if len(fn.Blocks) > 0 {
		walk(fn.Blocks[0], false, nil)
	}
	pos := p.Pos(fn.Pos())
	if len(bad) > 0 {
		pos = p.InstrPos(bad[0])
	}
	r.Check(len(bad) == 0, "C03.R7", "after trimming, the queue is empty or starts at a packet not older than the common first packet", pos, "every return follows a test that established it for the current queue",
		"a return is reachable where the queue was last found neither empty nor starting at or after the common sequence number (for example one stale packet is left when the whole queue predates it): that packet is demultiplexed as if aligned with the other groups, channels are shifted against each other by a packet")
}

// naturalLoopContains: x lies in the natural loop whose header is d (x reaches a back-edge
// predecessor of d without passing through d).
func naturalLoopContains(d, x *ssa.BasicBlock) bool {
	hasBack := false
	for _, pr := range d.Preds {
		if d.Dominates(pr) {
			hasBack = true
		}
	}
	if !hasBack {
		return false
	}
	if x == d {
		return true
	}
	if !d.Dominates(x) {
		return false
	}
	for _, pr := range d.Preds {
		if !d.Dominates(pr) {
			continue
		}
		seen := map[*ssa.BasicBlock]bool{d: true}
		var walk func(y *ssa.BasicBlock) bool
		walk = func(y *ssa.BasicBlock) bool {
			if y == pr {
				return true
			}
			if seen[y] {
				return false
			}
			seen[y] = true
			for _, sc := range y.Succs {
				if walk(sc) {
					return true
				}
			}
			return false
		}
		if walk(x) {
			return true
		}
	}
	return false
}

// isComponentOf: v is one of the results of call: an extracted tuple element, or a field of the
// struct it returns (read directly or through the local the result was stored in).
func isComponentOf(v ssa.Value, call *ssa.Call) bool {
	switch x := v.(type) {
	case *ssa.Extract:
		return x.Tuple == ssa.Value(call)
	case *ssa.Field:
		return x.X == ssa.Value(call)
	case *ssa.UnOp:
		if fa, ok := x.X.(*ssa.FieldAddr); ok && x.Op == token.MUL {
			if a, ok := fa.X.(*ssa.Alloc); ok {
				for _, ref := range *a.Referrers() {
					if st, ok := ref.(*ssa.Store); ok && st.Addr == ssa.Value(a) && st.Val == ssa.Value(call) {
						return true
					}
				}
			}
		}
	}
	return false
}
