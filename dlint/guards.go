package main

// E6: guard dominance.  Facts are integer inequalities D >= 0 (and equalities, and
// disequalities) collected from the branch conditions that dominate a program point, from
// the types (unsigned, len), from range loops (0 <= i < len(x)), from completed validation
// loops (universally quantified over the elements of a slice) and from derived equal-length
// invariants.  A goal G >= 0 is proven when G minus one or two facts is a non-negative
// constant, or term by term.  No path enumeration, no solver.

import (
	"fmt"
	"go/token"
	"go/types"
	"os"
	"regexp"
	"sort"
	"strings"

	"golang.org/x/tools/go/ssa"
)

type Fact struct {
	D   Poly
	Eq  bool // D == 0
	NE  bool // D != 0
	Why string
}

func (f Fact) String() string {
	op := ">= 0"
	if f.Eq {
		op = "== 0"
	}
	if f.NE {
		op = "!= 0"
	}
	return f.D.String() + " " + op
}

type univFact struct {
	L     *RangeLoop
	Done  *ssa.BasicBlock
	Slice string // rendered slice symbol
	F     Fact   // over elem(S)[∀]
}

type GuardCtx struct {
	resFacts  map[*ssa.Call][]Fact
	resCond   map[resCondKey][]Fact
	P         *Prog
	Fn        *ssa.Function
	PC        *PolyCtx
	loops     []*RangeLoop
	memo      map[*ssa.BasicBlock][]Fact
	univ      []univFact
	uDone     bool
	Inv       *LenInvariants
	extra     []Fact // edge conditions while proving a phi operand
	opDepth   int
	indDepth  int
	pinv      []phiInv
	pDone     bool
	imp       []importedUniv
	impDone   bool
	entry     []Fact
	entryDone bool
}

// phiInv: at every entry of the loop header, len(slice phi) - int phi == c.
type phiInv struct {
	Header *ssa.BasicBlock
	F      Fact
}

func NewGuardCtx(p *Prog, fn *ssa.Function, inv *LenInvariants) *GuardCtx {
	pc := NewPolyCtx(fn)
	pc.G = true
	return &GuardCtx{P: p, Fn: fn, PC: pc, loops: RangeLoops(fn), memo: map[*ssa.BasicBlock][]Fact{}, Inv: inv}
}

// condFacts: facts implied by cond having the given truth value.
func (g *GuardCtx) condFacts(cond ssa.Value, truth bool, why string) []Fact {
	switch c := cond.(type) {
	case *ssa.UnOp:
		if c.Op == token.NOT {
			return g.condFacts(c.X, !truth, why)
		}
	case *ssa.Call:
		// a boolean predicate helper of the module: what it tested
		if b, ok := c.Type().Underlying().(*types.Basic); ok && b.Kind() == types.Bool {
			mode := "false"
			if truth {
				mode = "true"
			}
			return g.factsFromCall(c, mode, why)
		}
	case *ssa.BinOp:
		// err == nil / err != nil on the result of a validation helper of the module
		if ec := errCall(c.X); ec != nil {
			if k, isC := c.Y.(*ssa.Const); isC && k.Value == nil {
				if (c.Op == token.EQL && truth) || (c.Op == token.NEQ && !truth) {
					return g.factsFromCall(ec, "nilerr", why)
				}
			}
			return nil
		}
		if !isIntLike(c.X.Type()) || isTimeTime(c.X.Type()) {
			return nil
		}
		x, y := g.PC.Of(c.X), g.PC.Of(c.Y)
		op := c.Op
		if !truth {
			switch op {
			case token.LSS:
				op = token.GEQ
			case token.LEQ:
				op = token.GTR
			case token.GTR:
				op = token.LEQ
			case token.GEQ:
				op = token.LSS
			case token.EQL:
				op = token.NEQ
			case token.NEQ:
				op = token.EQL
			default:
				return nil
			}
		}
		one := polyConst(1)
		switch op {
		case token.LSS: // x < y  => y - x - 1 >= 0
			return []Fact{{D: y.Sub(x).Sub(one), Why: why}}
		case token.LEQ:
			return []Fact{{D: y.Sub(x), Why: why}}
		case token.GTR:
			return []Fact{{D: x.Sub(y).Sub(one), Why: why}}
		case token.GEQ:
			return []Fact{{D: x.Sub(y), Why: why}}
		case token.EQL:
			return []Fact{{D: x.Sub(y), Eq: true, Why: why}}
		case token.NEQ:
			return []Fact{{D: x.Sub(y), NE: true, Why: why}}
		}
	}
	return nil
}

// edgeOwner: which successor edge of d (ending in If) leads exclusively to b?  -1 if none.
func edgeOwner(d, b *ssa.BasicBlock) int {
	if len(d.Succs) != 2 {
		return -1
	}
	t, f := d.Succs[0], d.Succs[1]
	td := (t == b || t.Dominates(b)) && len(t.Preds) == 1
	fd := (f == b || f.Dominates(b)) && len(f.Preds) == 1
	if td && !fd {
		return 0
	}
	if fd && !td {
		return 1
	}
	return -1
}

// FactsAtBlock: facts from the branch conditions dominating b.
func (g *GuardCtx) FactsAtBlock(b *ssa.BasicBlock) []Fact {
	if f, ok := g.memo[b]; ok {
		return f
	}
	var out []Fact
	for d := b.Idom(); d != nil; d = d.Idom() {
		iff, ok := d.Instrs[len(d.Instrs)-1].(*ssa.If)
		if !ok {
			continue
		}
		switch edgeOwner(d, b) {
		case 0:
			out = append(out, g.condFacts(iff.Cond, true, g.P.InstrPos(iff))...)
		case 1:
			out = append(out, g.condFacts(iff.Cond, false, g.P.InstrPos(iff))...)
		}
	}
	g.memo[b] = out
	return out
}

var elemRe = regexp.MustCompile(`^elem\((.*)\)\[([^\[\]]*)\](.*)$`)

// wildSym turns elem(S)[i]rest into elem(S)[∀]rest.
func wildSym(s string) (string, string, bool) {
	m := elemRe.FindStringSubmatch(s)
	if m == nil {
		return s, "", false
	}
	return "elem(" + m[1] + ")[∀]" + m[3], m[1], true
}

func mapSyms(p Poly, f func(string) string) Poly {
	out := Poly{}
	for mono, c := range p {
		if mono == "" {
			out[""] += c
			continue
		}
		parts := strings.Split(mono, "*")
		for i, s := range parts {
			parts[i] = f(s)
		}
		sort.Strings(parts)
		out[strings.Join(parts, "*")] += c
	}
	for k, v := range out {
		if v == 0 {
			delete(out, k)
		}
	}
	return out
}

func wildPoly(p Poly) Poly {
	return mapSyms(p, func(s string) string {
		// elem symbols may carry a reaching-store suffix {..}; wildcard keeps it
		w, _, _ := wildSym(s)
		return w
	})
}

// universal facts of completed validation loops
func (g *GuardCtx) universals() []univFact {
	if g.uDone {
		return g.univ
	}
	g.uDone = true
	for _, l := range g.loops {
		// (a `break` is detected where the fact is used: see univValid)
		sl := strings.ReplaceAll(g.PC.sliceSym(l.Over).String(), "*", "·")
		idx := strings.ReplaceAll(g.PC.Of(l.Idx).String(), "*", "·")
		prefix := "elem(" + sl + ")[" + idx + "]"
		var common map[string]Fact
		nBack := 0
		for _, pred := range l.Header.Preds {
			if !l.Contains(pred) || pred == l.Header && false {
				continue
			}
			if !(l.Body == pred || l.Body.Dominates(pred)) {
				continue
			}
			nBack++
			fs := append([]Fact{}, g.FactsAtBlock(pred)...)
			if iff, ok := pred.Instrs[len(pred.Instrs)-1].(*ssa.If); ok {
				if pred.Succs[0] == l.Header && pred.Succs[1] != l.Header {
					fs = append(fs, g.condFacts(iff.Cond, true, g.P.InstrPos(iff))...)
				} else if pred.Succs[1] == l.Header && pred.Succs[0] != l.Header {
					fs = append(fs, g.condFacts(iff.Cond, false, g.P.InstrPos(iff))...)
				}
			}
			cur := map[string]Fact{}
			for _, f := range fs {
				mentions := false
				for _, s := range f.D.Symbols() {
					if strings.HasPrefix(s, prefix) {
						mentions = true
					}
				}
				if mentions {
					cur[f.String()] = f
				}
			}
			if common == nil {
				common = cur
			} else {
				for k := range common {
					if _, ok := cur[k]; !ok {
						delete(common, k)
					}
				}
			}
		}
		if nBack == 0 {
			continue
		}
		var keys []string
		for k := range common {
			keys = append(keys, k)
		}
		sort.Strings(keys)
		for _, k := range keys {
			f := common[k]
			g.univ = append(g.univ, univFact{L: l, Done: l.Done, Slice: sl, F: Fact{D: wildPoly(f.D), Eq: f.Eq, NE: f.NE, Why: f.Why + " (for every element of " + sl + ")"}})
		}
	}
	return g.univ
}

// condKey names a branch condition by stable operands: nil tests / integer comparisons of
// paths that are never stored to in this function.  "" = no stable name.
func (g *GuardCtx) condKey(cond ssa.Value) string {
	bo, ok := cond.(*ssa.BinOp)
	if !ok {
		return ""
	}
	name := func(v ssa.Value) string {
		if c, ok := v.(*ssa.Const); ok {
			if c.Value == nil {
				return "nil"
			}
			return c.Value.ExactString()
		}
		if u, ok := v.(*ssa.UnOp); ok && u.Op == token.MUL {
			g.PC.ensureStorePaths()
			if p, ok := g.PC.rawSlicePath(u); ok {
				return p
			}
		}
		if isIntLike(v.Type()) {
			p := g.PC.Of(v).String()
			if !strings.ContainsAny(p, "#{") {
				return p
			}
		}
		return ""
	}
	x, y := name(bo.X), name(bo.Y)
	if x == "" || y == "" {
		return ""
	}
	return x + " " + bo.Op.String() + " " + y
}

// univValid: has the range loop l completed normally (all iterations, left through its
// header) on every path to block b?  Either the loop exit is the only way into a block that
// dominates b, or loop and b sit under two tests of the same stable condition: the loop inside
// `if C {...}` whose every path from the branch entry goes through the loop's normal exit
// or leaves the function, and b under a later `if C`.
func (g *GuardCtx) univValid(l *RangeLoop, b *ssa.BasicBlock) bool {
	d := l.Done
	if len(d.Preds) == 1 && (d == b || d.Dominates(b)) {
		return true
	}
	h, e, key, _, ok := g.univRegion(l, b)
	if !ok {
		return false
	}
	for h2 := b.Idom(); h2 != nil && h2 != h; h2 = h2.Idom() {
		iff2, ok := h2.Instrs[len(h2.Instrs)-1].(*ssa.If)
		if !ok {
			continue
		}
		if e2 := edgeOwner(h2, b); e2 == e && g.condKey(iff2.Cond) == key {
			return true
		}
	}
	return false
}

// univRegion: the loop l sits inside `if C {...}` (test block h, branch e, stable name key)
// and every path from the branch entry either leaves the function or goes through the loop's
// normal exit; region is the set of blocks walked (the part of the branch before the exit).
// b (may be nil) is a block the test must dominate and that must lie outside the branch.
func (g *GuardCtx) univRegion(l *RangeLoop, b *ssa.BasicBlock) (h *ssa.BasicBlock, e int, key string, region map[*ssa.BasicBlock]bool, ok bool) {
	hd := l.Header
	for h = hd.Idom(); h != nil; h = h.Idom() {
		iff, isIf := h.Instrs[len(h.Instrs)-1].(*ssa.If)
		if !isIf {
			continue
		}
		e = edgeOwner(h, hd)
		if e < 0 {
			continue
		}
		if b != nil && !h.Dominates(b) {
			continue // an inner test inside the region (e.g. an early error return)
		}
		entry := h.Succs[e]
		if b != nil && (entry == b || entry.Dominates(b)) {
			// same region: every way from the branch entry to b must go through the loop exit
			continue
		}
		key = g.condKey(iff.Cond)
		if key == "" {
			return nil, 0, "", nil, false
		}
		// every path from the branch entry leaves the region only through the loop's header exit
		seen := map[*ssa.BasicBlock]bool{}
		okRegion := true
		var walk func(x *ssa.BasicBlock)
		walk = func(x *ssa.BasicBlock) {
			if seen[x] || !okRegion {
				return
			}
			seen[x] = true
			if !(x == entry || entry.Dominates(x)) {
				okRegion = false
				return
			}
			if x == hd {
				walk(l.Body) // the exit edge header->done is the normal completion
				return
			}
			for _, s := range x.Succs {
				walk(s)
			}
		}
		walk(entry)
		if !okRegion {
			return nil, 0, "", nil, false
		}
		return h, e, key, seen, true
	}
	return nil, 0, "", nil, false
}

// intrinsic facts about the symbols of a polynomial at a program point
func (g *GuardCtx) intrinsic(p Poly, at *ssa.BasicBlock) []Fact {
	var out []Fact
	for _, s := range p.Symbols() {
		if strings.HasPrefix(s, "len(") || strings.HasPrefix(s, "cap(") {
			out = append(out, Fact{D: polySym(s), Why: "length"})
		}
		v := g.PC.symVal[s]
		if v == nil {
			continue
		}
		if b, ok := v.Type().Underlying().(*types.Basic); ok && b.Info()&types.IsUnsigned != 0 {
			out = append(out, Fact{D: polySym(s), Why: "unsigned"})
		}
		if ph, ok := v.(*ssa.Phi); ok {
			// range loop index
			for _, l := range g.loops {
				if l.Phi == ph {
					out = append(out, Fact{D: polySym(s).Add(polyConst(1)), Why: "range index"})
					if at != nil && at != l.Header && l.Contains(at) {
						// inside the body: idx = phi+1 < len(over)
						out = append(out, Fact{D: g.PC.lenOf(l.Over).Sub(polySym(s)).Sub(polyConst(2)), Why: "range index below len"})
					}
				}
			}
			// counting loop: phi(c0, phi + k), k > 0
			var c0 *int64
			okInd := len(ph.Edges) == 2
			for _, e := range ph.Edges {
				if n, isC := constInt(e); isC {
					n := n
					c0 = &n
					continue
				}
				bo, isB := e.(*ssa.BinOp)
				if !isB || bo.Op != token.ADD {
					okInd = false
					continue
				}
				k, isC := constInt(bo.Y)
				if bo.X != ssa.Value(ph) || !isC || k <= 0 {
					okInd = false
				}
			}
			if okInd && c0 != nil {
				out = append(out, Fact{D: polySym(s).Sub(polyConst(*c0)), Why: "counting loop"})
			}
			// a cursor that only moves forward: phi(c0, phi + d, ...) with every d proven >= 0 where
			// it is added (`for pos := 0; pos < len(b); { ...; pos += size }`)
			if !okInd && g.indDepth == 0 && isIntLike(ph.Type()) {
				var start *int64
				fwd := true
				nback := 0
				for i, e := range ph.Edges {
					if n, isC := constInt(e); isC && !ph.Block().Dominates(ph.Block().Preds[i]) {
						n := n
						if start == nil || n < *start {
							start = &n
						}
						continue
					}
					bo, isB := e.(*ssa.BinOp)
					if !isB || bo.Op != token.ADD || bo.X != ssa.Value(ph) {
						fwd = false
						continue
					}
					nback++
					g.indDepth++
					okD := g.prove(g.PC.Of(bo.Y), false, bo, 1)
					g.indDepth--
					if !okD {
						fwd = false
					}
				}
				if fwd && start != nil && nback > 0 {
					out = append(out, Fact{D: polySym(s).Sub(polyConst(*start)), Why: "cursor that only moves forward"})
				}
			}
		}
		// x / c and x % c with constant c > 0 keep the sign of x (>= 0 when x >= 0): handled in nonNegSym
	}
	return out
}

// opFacts: facts about operator symbols: max(a,b) >= a, b; min(a,b) <= a, b; for a >= 0 and
// b > 0 (both provable here): 0 <= a/b <= a and 0 <= a%b <= a, a%b < b.
func (g *GuardCtx) opFacts(p Poly, at ssa.Instruction, depth int) []Fact {
	var out []Fact
	if depth > 1 {
		return nil
	}
	for _, s := range p.Symbols() {
		args := g.PC.opArgs[s]
		if args == nil {
			continue
		}
		sym := polySym(s)
		switch {
		case strings.HasPrefix(s, "max("):
			for _, a := range args {
				out = append(out, Fact{D: sym.Sub(a), Why: "max"})
			}
		case strings.HasPrefix(s, "min("):
			for _, a := range args {
				out = append(out, Fact{D: a.Sub(sym), Why: "min"})
			}
		case (strings.HasPrefix(s, "/(") || strings.HasPrefix(s, "%(")) && len(args) == 2:
			g.opDepth++
			ok := g.opDepth <= 1 && g.prove(args[0], false, at, 1) && g.prove(args[1].Sub(polyConst(1)), false, at, 1)
			g.opDepth--
			if ok {
				out = append(out, Fact{D: sym, Why: "quotient/remainder of non-negative by positive"}, Fact{D: args[0].Sub(sym), Why: "quotient/remainder <= dividend"})
				if strings.HasPrefix(s, "%(") {
					out = append(out, Fact{D: args[1].Sub(sym).Sub(polyConst(1)), Why: "remainder < divisor"})
				}
			}
		}
	}
	return out
}

// lenInvFacts: equalities len(base.F) == base.G from the derived invariants.
func (g *GuardCtx) lenInvFacts(p Poly) []Fact {
	if g.Inv == nil {
		return nil
	}
	var out []Fact
	for _, s := range p.Symbols() {
		if !strings.HasPrefix(s, "len(") || !strings.HasSuffix(s, ")") {
			continue
		}
		inner := s[4 : len(s)-1]
		var k FieldKey
		found := false
		if ld, ok := g.PC.symVal[inner].(*ssa.UnOp); ok {
			if fa, ok := ld.X.(*ssa.FieldAddr); ok {
				k, found = fieldKeyOfAddr(fa)
			}
		}
		if !found {
			// a path translated from another function: resolve by field name when unambiguous
			i := strings.LastIndex(inner, ".")
			if i < 0 || strings.ContainsAny(inner[i:], "{[(") {
				continue
			}
			n := 0
			for kk := range g.Inv.Eq {
				if kk.Field == inner[i+1:] {
					k = kk
					n++
				}
			}
			if n != 1 {
				continue
			}
		}
		for _, gname := range g.Inv.Eq[k] {
			// base path = inner without the last field
			i := strings.LastIndex(inner, ".")
			if i < 0 {
				continue
			}
			base := inner[:i]
			if j := strings.Index(inner[i:], "{"); j >= 0 {
				continue // the slice field was stored to in this function: invariant not assumed here
			}
			if strings.HasPrefix(gname, "^") {
				// the partner is a field of the struct this one is embedded in: drop the embedded field's segment
				j2, d := strings.LastIndex(base, "."), strings.Index(gname, ".")
				if j2 < 0 || d < 0 {
					continue
				}
				out = append(out, Fact{D: polySym(s).Sub(polySym(base[:j2] + "." + gname[d+1:])), Eq: true, Why: "len(" + k.String() + ") == " + gname[1:] + " of the embedding struct (derived invariant)"})
				continue
			}
			out = append(out, Fact{D: polySym(s).Sub(polySym(base + "." + gname)), Eq: true, Why: "len(" + k.String() + ") == " + gname + " (derived invariant)"})
		}
	}
	return out
}

// AllFacts gathers every fact usable for a goal at an instruction.
func (g *GuardCtx) AllFacts(goal Poly, at ssa.Instruction) []Fact {
	b := at.Block()
	facts := append([]Fact{}, g.FactsAtBlock(b)...)
	facts = append(facts, g.extra...)
	for _, pi := range g.phiInvariants() {
		if pi.Header == b || pi.Header.Dominates(b) {
			facts = append(facts, pi.F)
		}
	}
	for _, u := range g.universals() {
		if g.univValid(u.L, b) {
			facts = append(facts, u.F)
		}
	}
	// guards every caller of an unexported helper makes before the call
	facts = append(facts, g.entryFacts()...)
	// universal facts established by validation helpers that returned no error
	for _, iu := range g.importedUnivs() {
		if g.importedValid(iu, b) {
			facts = append(facts, iu.F)
		}
	}
	// what module helpers say about the objects they returned, whichever way they returned
	// (`return result{idx: max(found, lowest), ...}`), for the calls that come before this point
	facts = append(facts, g.resultFacts(at)...)
	// intrinsic facts for the symbols of the goal and of the facts so far
	all := goal.clone()
	for _, f := range facts {
		for k := range f.D {
			all[k] = 1
		}
	}
	facts = append(facts, g.intrinsic(all, b)...)
	facts = append(facts, g.lenInvFacts(all)...)
	facts = append(facts, g.parity(facts)...)
	facts = append(facts, g.opFacts(all, at, 0)...)
	return facts
}

// phiInvariants: for a loop header holding a slice phi S and an integer phi N, the relation
// len(S) - N == c is an invariant when it holds on every incoming edge (checked by
// polynomial arithmetic: the entry edge gives c, each back edge must preserve it).
func (g *GuardCtx) phiInvariants() []phiInv {
	if g.pDone {
		return g.pinv
	}
	g.pDone = true
	for _, b := range g.Fn.Blocks {
		var sl, in []*ssa.Phi
		for _, ins := range b.Instrs {
			ph, ok := ins.(*ssa.Phi)
			if !ok {
				break
			}
			if _, isSl := ph.Type().Underlying().(*types.Slice); isSl {
				sl = append(sl, ph)
			} else if isIntLike(ph.Type()) && !isTimeTime(ph.Type()) {
				in = append(in, ph)
			}
		}
		for _, s := range sl {
			for _, n := range in {
				var c *int64
				ok := true
				for i := range s.Edges {
					var d Poly
					// on the edge: len(s.Edges[i]) - n.Edges[i], with the phis themselves as symbols
					d = g.PC.lenOf(s.Edges[i]).Sub(g.PC.Of(n.Edges[i]))
					// express relative to the invariant candidate: d - (len(s) - n) must be 0 on back
					// edges, and a constant on entry edges
					rel := d.Sub(g.PC.lenOf(s).Sub(g.PC.Of(n)))
					if os.Getenv("DLINT_DEBUG_PINV") != "" {
						fmt.Printf("pinv %s: %s/%s edge %d d=%s rel=%s\n", FuncName(g.Fn), s.Name(), n.Name(), i, d, rel)
					}
					if rel.IsZero() {
						continue // preserved
					}
					if cv, isC := d.IsConst(); isC {
						if c != nil && *c != cv {
							ok = false
						}
						c = &cv
						continue
					}
					ok = false
				}
				if ok && c != nil {
					g.pinv = append(g.pinv, phiInv{b, Fact{D: g.PC.lenOf(s).Sub(g.PC.Of(n)).Sub(polyConst(*c)), Eq: true, Why: "loop invariant len(" + s.Name() + ") - " + n.Name() + " (holds on entry, preserved by every back edge)"}})
				}
			}
		}
	}
	return g.pinv
}

// parity: a counting loop variable i = c0, c0+s, c0+2s, ... and a bound B whose symbols all
// carry coefficients divisible by s: i < B sharpens to i <= B - s + ((B0 - c0) mod s adjusted).
func (g *GuardCtx) parity(facts []Fact) []Fact {
	var out []Fact
	for _, f := range facts {
		if f.Eq || f.NE {
			continue
		}
		for _, sym := range f.D.Symbols() {
			if f.D[sym] != -1 {
				continue
			}
			ph, ok := g.PC.symVal[sym].(*ssa.Phi)
			if !ok || len(ph.Edges) != 2 {
				continue
			}
			var c0, step int64
			okInd := true
			haveC := false
			for _, e := range ph.Edges {
				if n, isC := constInt(e); isC {
					c0, haveC = n, true
					continue
				}
				bo, isB := e.(*ssa.BinOp)
				if !isB || bo.Op != token.ADD || bo.X != ssa.Value(ph) {
					okInd = false
					continue
				}
				k, isC := constInt(bo.Y)
				if !isC || k <= 1 {
					okInd = false
				}
				step = k
			}
			if !okInd || !haveC || step <= 1 {
				continue
			}
			// f.D = B' - phi where B' = rest; fact says phi <= B'  (B' includes the -1 of a strict bound)
			rest := f.D.Add(polySym(sym))
			div := true
			for mono, co := range rest {
				if mono != "" && co%step != 0 {
					div = false
				}
			}
			if !div {
				continue
			}
			k0 := rest[""]
			// phi ≡ c0 (mod step), phi <= B' with B' ≡ k0 (mod step)  =>  phi <= B' - ((k0 - c0) mod step)
			r := ((k0-c0)%step + step) % step
			if r != 0 {
				out = append(out, Fact{D: f.D.Sub(polyConst(r)), Why: f.Why + " (sharpened by the step of the counting loop)"})
			}
		}
	}
	return out
}

func geList(facts []Fact) []Poly {
	var ge []Poly
	for _, f := range facts {
		if f.NE {
			continue
		}
		ge = append(ge, f.D)
		if f.Eq {
			ge = append(ge, f.D.Neg())
		}
	}
	// an integer that is not zero and is known not to be negative is at least one
	// (`if len(d) == 0 { return }` ... d[0])
	base := len(ge)
	for _, f := range facts {
		if !f.NE {
			continue
		}
		for i := 0; i < base; i++ {
			if ge[i].Equal(f.D) {
				ge = append(ge, f.D.Sub(polyConst(1)))
			} else if ge[i].Equal(f.D.Neg()) {
				ge = append(ge, f.D.Neg().Sub(polyConst(1)))
			}
		}
	}
	return ge
}

func nonNegConst(p Poly) bool {
	c, ok := p.IsConst()
	return ok && c >= 0
}

// proveGE: goal >= 0 from the list of polynomials known to be >= 0.
func proveGE(goal Poly, ge []Poly) bool {
	if nonNegConst(goal) {
		return true
	}
	for _, f := range ge {
		if nonNegConst(goal.Sub(f)) {
			return true
		}
	}
	for i, f1 := range ge {
		r := goal.Sub(f1)
		for j := i; j < len(ge); j++ {
			if nonNegConst(r.Sub(ge[j])) {
				return true
			}
		}
	}
	if len(ge) <= 40 {
		for i, f1 := range ge {
			r1 := goal.Sub(f1)
			for j := i; j < len(ge); j++ {
				r2 := r1.Sub(ge[j])
				for k := j; k < len(ge); k++ {
					if nonNegConst(r2.Sub(ge[k])) {
						return true
					}
				}
			}
		}
	}
	// term by term: every monomial is a single symbol with positive coefficient and that
	// symbol is known non-negative; constant term non-negative
	ok := true
	for mono, c := range goal {
		if mono == "" {
			if c < 0 {
				ok = false
			}
			continue
		}
		if c < 0 || strings.Contains(mono, "*") || !symNonNeg(mono, ge) {
			ok = false
		}
	}
	return ok
}

var quoRe = regexp.MustCompile(`^(/|%)\((.*),(\d+)\)$`)

func symNonNeg(sym string, ge []Poly) bool {
	for _, f := range ge {
		if nonNegConst(polySym(sym).Sub(f)) {
			return true
		}
	}
	if m := quoRe.FindStringSubmatch(sym); m != nil {
		// x / c, x % c with c > 0: non-negative when x is a single non-negative symbol
		inner := strings.ReplaceAll(m[2], "·", "*")
		if !strings.ContainsAny(inner, "+- ") {
			return symNonNeg(inner, ge)
		}
	}
	return false
}

// Prove: goal >= 0 at instruction `at`.  Tries the goal as is and with element symbols
// wildcarded (any element of a validated slice).
func (g *GuardCtx) Prove(goal Poly, at ssa.Instruction) bool {
	return g.prove(goal, false, at, 0)
}

// splitPhi: if the goal mentions a phi (other than loop counters already covered by facts),
// the goal holds when it holds for each incoming value at the end of the corresponding
// predecessor, under the condition of that edge (the clamp idiom `if x <= 0 { x = 1 }`).
func (g *GuardCtx) splitPhi(goal Poly, ne bool, depth int) bool {
	if depth >= 2 {
		return false
	}
	// len(<slice phi>): the goal holds at every visit of the phi's block when it holds for every
	// value entering from outside and is preserved along every back edge (induction: the goal for
	// the phi itself is assumed while proving it for the back-edge value).
	for _, s := range goal.Symbols() {
		ph, ok := g.PC.lenSymVal[s].(*ssa.Phi)
		if !ok || ne {
			continue
		}
		b := ph.Block()
		all := true
		for i, e := range ph.Edges {
			pred := b.Preds[i]
			sub, _ := substPoly(goal, map[string]Poly{s: g.PC.lenOf(e)}, nil)
			term := pred.Instrs[len(pred.Instrs)-1]
			back := b.Dominates(pred)
			if back {
				g.extra = append(g.extra, Fact{D: goal, Why: "induction hypothesis for " + ph.Name()})
			}
			okE := !sub.Equal(goal) && g.proveOnEdge(sub, false, pred, b, term, depth+1)
			if back {
				g.extra = g.extra[:len(g.extra)-1]
			}
			if !okE {
				all = false
				break
			}
		}
		if all {
			return true
		}
	}
	for _, s := range goal.Symbols() {
		ph, ok := g.PC.symVal[s].(*ssa.Phi)
		if !ok || !isIntLike(ph.Type()) {
			continue
		}
		b := ph.Block()
		all := true
		for i, e := range ph.Edges {
			pred := b.Preds[i]
			sub, _ := substPoly(goal, map[string]Poly{s: g.PC.Of(e)}, nil)
			if sub.Equal(goal) { // self-reference through the back edge
				all = false
				break
			}
			term := pred.Instrs[len(pred.Instrs)-1]
			if !g.proveOnEdge(sub, ne, pred, b, term, depth+1) {
				all = false
				break
			}
		}
		if all {
			return true
		}
	}
	return false
}

// proveOnEdge proves at the end of pred, adding the condition of the edge pred->succ.
func (g *GuardCtx) proveOnEdge(goal Poly, ne bool, pred, succ *ssa.BasicBlock, term ssa.Instruction, depth int) bool {
	var extra []Fact
	if iff, ok := term.(*ssa.If); ok && pred.Succs[0] != pred.Succs[1] {
		if pred.Succs[0] == succ {
			extra = g.condFacts(iff.Cond, true, g.P.InstrPos(iff))
		} else {
			extra = g.condFacts(iff.Cond, false, g.P.InstrPos(iff))
		}
	}
	g.extra = append(g.extra, extra...)
	defer func() { g.extra = g.extra[:len(g.extra)-len(extra)] }()
	return g.prove(goal, ne, term, depth)
}

func (g *GuardCtx) prove(goal Poly, ne bool, at ssa.Instruction, depth int) bool {
	if ne {
		if c, ok := goal.IsConst(); ok {
			return c != 0
		}
		facts := g.AllFacts(goal, at)
		for _, f := range facts {
			if f.NE && (f.D.Equal(goal) || f.D.Equal(goal.Neg())) {
				return true
			}
		}
		one := polyConst(1)
		if g.prove(goal.Sub(one), false, at, depth) || g.prove(goal.Neg().Sub(one), false, at, depth) {
			return true
		}
		return g.splitPhi(goal, true, depth)
	}
	facts := g.AllFacts(goal, at)
	ge := geList(facts)
	if proveGE(goal, ge) {
		return true
	}
	if g.splitPhi(goal, false, depth) {
		return true
	}
	wg := wildPoly(goal)
	if !wg.Equal(goal) {
		var wge []Poly
		for _, f := range ge {
			wge = append(wge, wildPoly(f))
		}
		if proveGE(wg, wge) {
			return true
		}
	}
	return false
}

// ProveNE0: goal != 0.
func (g *GuardCtx) ProveNE0(goal Poly, at ssa.Instruction) bool {
	return g.prove(goal, true, at, 0)
}

// Goals of a sink: the polynomials that must be >= 0 (NE for divisors).
type Goal struct {
	P    Poly
	NE   bool
	What string
}

func (g *GuardCtx) SinkGoals(s Sink) []Goal {
	v := g.PC.Of(s.V)
	one := polyConst(1)
	switch s.Kind {
	case SinkIndex, SinkPairLen:
		var ln Poly
		if pt, ok := s.X.Type().Underlying().(*types.Pointer); ok {
			if arr, ok := pt.Elem().Underlying().(*types.Array); ok {
				ln = polyConst(arr.Len())
			}
		}
		if arr, ok := s.X.Type().Underlying().(*types.Array); ok {
			ln = polyConst(arr.Len())
		}
		if ln == nil {
			ln = g.PC.lenOf(s.X)
		}
		return []Goal{{P: v, What: "index >= 0"}, {P: ln.Sub(v).Sub(one), What: "index < len"}}
	case SinkSliceLo:
		return []Goal{{P: v, What: "slice low >= 0"}}
	case SinkSliceHi:
		ln := g.PC.lenOf(s.X)
		return []Goal{{P: v, What: "slice high >= 0"}, {P: ln.Sub(v), What: "slice high <= len"}}
	case SinkMakeLen:
		return []Goal{{P: v, What: "size >= 0"}}
	case SinkDivisor:
		return []Goal{{P: v, NE: true, What: "divisor != 0"}}
	}
	return nil
}

// ---- derived equal-length invariants ---------------------------------------------------

// LenInvariants: Eq[(T,F)] = names of int fields G of T with len(x.F) == x.G for every x.
type LenInvariants struct {
	Eq    map[FieldKey][]string
	Notes []string
}

// DeriveLenInvariants: len(x.F) == x.G holds when (a) every store to F in library code is
// make([]E, n) where, in the same function, n is congruent to the value stored to x.G or to a
// load of x.G, and (b) G is never stored to by code reachable from the run-phase roots
// (the functions given in runRoots and everything they call).
func DeriveLenInvariants(p *Prog, runPhase map[*ssa.Function]bool) *LenInvariants {
	inv := &LenInvariants{Eq: map[FieldKey][]string{}}
	type cand struct {
		ok    bool
		names map[string]bool
	}
	cands := map[FieldKey]*cand{}
	writersOf := map[FieldKey][]*ssa.Function{}
	for _, fn := range p.LibFuncs() {
		var pc *PolyCtx
		Instrs(fn, func(in ssa.Instruction) {
			st, ok := in.(*ssa.Store)
			if !ok {
				return
			}
			fa, ok := st.Addr.(*ssa.FieldAddr)
			if !ok {
				return
			}
			k, _ := fieldKeyOfAddr(fa)
			writersOf[k] = append(writersOf[k], fn)
			if _, isSl := st.Val.Type().Underlying().(*types.Slice); !isSl {
				return
			}
			c := cands[k]
			if c == nil {
				c = &cand{ok: true}
				cands[k] = c
			}
			mk, isMk := st.Val.(*ssa.MakeSlice)
			if !isMk {
				c.ok = false
				return
			}
			if pc == nil {
				pc = NewPolyCtx(fn)
				pc.G = true
			}
			L := pc.Of(mk.Len)
			base, okb := pc.accessPath(fa.X)
			if !okb {
				if u, isU := fa.X.(*ssa.UnOp); isU && u.Op == token.MUL {
					base, okb = pc.accessPath(u.X)
				}
			}
			names := map[string]bool{}
			// n is a load of base.G
			if len(L) == 1 && okb {
				for mono, co := range L {
					if co == 1 && strings.HasPrefix(mono, base+".") && !strings.ContainsAny(mono[len(base)+1:], ".{*(") {
						names[mono[len(base)+1:]] = true
					}
				}
			}
			// n is congruent to a value stored to base.G in this function
			for _, s2 := range pc.stores {
				fa2, ok := s2.Addr.(*ssa.FieldAddr)
				if !ok || !isIntLike(s2.Val.Type()) || isTimeTime(s2.Val.Type()) {
					continue
				}
				if fa2.X != fa.X {
					b2, ok2 := pc.accessPath(fa2.X)
					if !ok2 || !okb || b2 != base {
						continue
					}
				}
				if pc.Of(s2.Val).Equal(L) {
					st2 := derefStruct(fa2.X.Type())
					names[st2.Field(fa2.Field).Name()] = true
				}
			}
			// the struct is put together by a value constructor (`func newX(n int) X`) whose result every
			// caller stores into an embedded field of the struct that keeps the count: the partner is a
			// field of the embedding struct, written "^Outer.G"
			if len(names) == 0 && len(L) == 1 {
				if al, isAl := fa.X.(*ssa.Alloc); isAl && func() bool { _, ok := returnedByValue(fn, al); return ok }() {
					prmIdx := -1
					for i, prm := range fn.Params {
						if isIntLike(prm.Type()) && pc.Of(prm).Equal(L) {
							prmIdx = i
						}
					}
					sites, complete := p.staticCallSites(fn)
					if prmIdx >= 0 && complete && len(sites) > 0 {
						cn := map[string]int{}
						for _, site := range sites {
							cv, isV := site.(ssa.Value)
							cc := CallOf(site)
							if !isV || cc == nil || prmIdx >= len(cc.Args) {
								continue
							}
							caller := site.Parent()
							cpc := NewPolyCtx(caller)
							cpc.G = true
							argP := cpc.Of(cc.Args[prmIdx])
							for _, ref := range *cv.Referrers() {
								st3, isSt := ref.(*ssa.Store)
								if !isSt || st3.Val != cv {
									continue
								}
								fa3, isFa := st3.Addr.(*ssa.FieldAddr)
								if !isFa {
									continue
								}
								ost := derefStruct(fa3.X.Type())
								if ost == nil || !ost.Field(fa3.Field).Embedded() {
									continue
								}
								seen := map[string]bool{}
								for _, s2 := range cpc.stores {
									fa2, ok := s2.Addr.(*ssa.FieldAddr)
									if !ok || !isIntLike(s2.Val.Type()) || isTimeTime(s2.Val.Type()) || fa2.X != fa3.X {
										continue
									}
									if cpc.Of(s2.Val).Equal(argP) {
										nm := "^" + typeName(fa3.X.Type()) + "." + ost.Field(fa2.Field).Name()
										if !seen[nm] {
											seen[nm] = true
											cn[nm]++
										}
									}
								}
							}
						}
						for nm, k := range cn {
							if k == len(sites) {
								names[nm] = true
							}
						}
					}
				}
			}
			if c.names == nil {
				c.names = names
			} else {
				for n := range c.names {
					if !names[n] {
						delete(c.names, n)
					}
				}
			}
		})
	}
	var keys []FieldKey
	for k := range cands {
		keys = append(keys, k)
	}
	sort.Slice(keys, func(i, j int) bool { return keys[i].String() < keys[j].String() })
	for _, k := range keys {
		c := cands[k]
		if !c.ok || len(c.names) == 0 {
			continue
		}
		var ns []string
		for n := range c.names {
			ns = append(ns, n)
		}
		sort.Strings(ns)
		for _, n := range ns {
			gk := FieldKey{k.Owner, n}
			if strings.HasPrefix(n, "^") {
				if i := strings.Index(n, "."); i > 0 {
					gk = FieldKey{n[1:i], n[i+1:]}
				}
			}
			bad := ""
			for _, w := range writersOf[gk] {
				if runPhase[w] {
					bad = FuncName(w)
				}
			}
			// embedded owners: the int field may be written through an embedding struct with the same owner name; covered by ownerName
			if bad != "" {
				inv.Notes = append(inv.Notes, fmt.Sprintf("len(%s)==%s NOT assumed: %s is written in run-phase function %s", k, n, n, bad))
				continue
			}
			inv.Eq[k] = append(inv.Eq[k], n)
			inv.Notes = append(inv.Notes, fmt.Sprintf("len(%s) == %s.%s (every store to %s is make(..., n) with n the value of %s; %s is not written in the run phase)", k, k.Owner, n, k.Field, n, n))
		}
	}
	return inv
}

// resultFacts: facts about fields of struct results of module helpers called before `at`.
func (g *GuardCtx) resultFacts(at ssa.Instruction) []Fact {
	if g.resFacts == nil {
		g.resFacts = map[*ssa.Call][]Fact{}
		Instrs(g.Fn, func(in ssa.Instruction) {
			call, ok := in.(*ssa.Call)
			if !ok || call.Call.IsInvoke() {
				return
			}
			h := call.Call.StaticCallee()
			if !isModuleFn(h) || h == g.Fn || len(h.Blocks) == 0 {
				return
			}
			structRes := false
			res := h.Signature.Results()
			for i := 0; i < res.Len(); i++ {
				if derefStruct(res.At(i).Type()) != nil {
					structRes = true
				}
			}
			if !structRes {
				return
			}
			var keep []Fact
			for _, f := range g.factsFromCall(call, "always", "result of "+FuncName(h)) {
				mentions := false
				for _, sy := range f.D.Symbols() {
					if strings.HasPrefix(sy, "v") && strings.Contains(sy, ":") {
						mentions = true
					}
				}
				if mentions {
					keep = append(keep, f)
				}
			}
			g.resFacts[call] = keep
		})
	}
	var out []Fact
	for call, fs := range g.resFacts {
		if !InstrDominates(call, at) {
			continue
		}
		out = append(out, fs...)
		// facts that hold when a bool field of the result says so (`if !x.found { break }`)
		for _, ct := range controllingIfs(at.Block()) {
			cond := ct.If.Cond
			truth := ct.Branch == 0
			if u, ok := cond.(*ssa.UnOp); ok && u.Op == token.NOT {
				cond, truth = u.X, !truth
			}
			fname := ""
			switch fx := cond.(type) {
			case *ssa.Field:
				if fx.X == ssa.Value(call) {
					if st := derefStruct(fx.X.Type()); st != nil {
						fname = st.Field(fx.Field).Name()
					}
				}
			case *ssa.UnOp:
				// the result kept in a local: x := call; ... x.found
				if src, okS := localStructSource(fx); okS && src == ssa.Value(call) {
					if fa, okF := fx.X.(*ssa.FieldAddr); okF {
						if st := derefStruct(fa.X.Type()); st != nil {
							fname = st.Field(fa.Field).Name()
						}
					}
				}
			}
			if fname == "" {
				continue
			}
			mode := fmt.Sprintf("when:%s=%d", fname, map[bool]int{true: 1, false: 0}[truth])
			key := resCondKey{call, mode}
			if g.resCond == nil {
				g.resCond = map[resCondKey][]Fact{}
			}
			if _, done := g.resCond[key]; !done {
				var keep []Fact
				for _, f := range g.factsFromCall(call, mode, "result of "+FuncName(call.Call.StaticCallee())+" "+mode) {
					for _, sy := range f.D.Symbols() {
						if strings.HasPrefix(sy, "v") && strings.Contains(sy, ":") {
							keep = append(keep, f)
							break
						}
					}
				}
				g.resCond[key] = keep
			}
			out = append(out, g.resCond[key]...)
		}
	}
	return out
}

type resCondKey struct {
	call *ssa.Call
	mode string
}
