package main

import (
	"fmt"
	"go/constant"
	"go/token"
	"go/types"
	"strings"

	"golang.org/x/tools/go/ssa"
)

func init() {
	register(&RuleSet{
		Property: "C04",
		Explanation: "Decides structural clauses of Lancero ingest (byte/frame arithmetic of the reader and the mix numerics are not decided): " +
			"(R1) frame numbering: a block is stamped at the running counter plus the frames estimated as lost, and the counter advances by that same estimate plus the block length, so later blocks never start before an earlier block's end; " +
			"(R2) index space: the demultiplexed buffers are in readout order; every index into them in block assembly (segment data, error partner, external-trigger scan) goes through the channel-to-readout table, the only exception being a constant index used for a length; the table is filled as channel = (word%2) + 2*row + 2*rows*col from readout word w with row = (w/2)/cols, col = (w/2)%cols (error then feedback, column-major); " +
			"(R3) geometry: the row count used for external-trigger counts comes from an active card, never from a map lookup by literal card number (nil when that card is not active), and every dereference of a device looked up in the card map is nil-guarded or comes from ranging over the map; the count recorded is (frame + block's counter)*rows + row of the scanned row, once per rising edge (previous state carried in a field across frames, rows and blocks); " +
			"(R4) one-sample retard: both arms of the feedback mixer output the previous sample held in the state field and store the current sample with its two flag bits cleared; the error is taken as signed 16-bit, and the mixed value saturates at 0 and 65535; " +
			"(R5) the reader copies word i + j*words-per-frame of each card's buffer to buffer i (plus the channels of earlier cards), sample j, and releases exactly frames-used times the frame size per card. " +
			"(R6) the sample carried by a mixer object survives between blocks: only the mixer writes it, and mixer objects are never replaced by code the running loop can reach. " +
			"Does not decide: frame-bit search, re-alignment arithmetic after a loss, mix scaling values, exactly-once of external triggers as a numeric fact.",
		RuleDocs: []string{
			"C04.R1 FRAME rule (E3) on the Lancero block assembly",
			"C04.R2 dependence of every buffer index on the channel-to-readout table, in the block assembly and in helpers handed the buffers; the mixer object Mix[k] is applied to buffers[table[k]] and buffers[table[k-1]] (or to a channel-ordered view filled from the table); polynomial form of the table fill",
			"C04.R3 nil-guard of map lookups; provenance of the row count; E3 form of the recorded count; the counter in it is read before any advance of the counter (store or helper call) can have happened; edge detection shape",
			"C04.R4 E5 carried state in the feedback mixer: every loop that writes outputs refreshes the carried sample; the scale is compared with zero by == / != only; saturation arms (also in a helper that returns the limits)",
			"C04.R5 E3 form of the demultiplexing copy and of the released byte count (also through a releasing helper; a device field added to the release is a deferred skip count and must be cleared by the helper after the release)",
			"C04.R6 ownership of the carried sample: the carried-sample field is stored only by the mixer's methods (or on a fresh object); the source's table of mixer objects and its elements are assigned only in functions the running data loop (getNextBlock and what it starts) cannot reach",
		},
		Assumptions: []string{"LanceroSource / Mix field names (chan2readoutOrder, devices, active, lastFb, errorScale, externalTriggerLastState) are name-keyed anchors"},
		Run:         runC04,
	})
}

func runC04(p *Prog, r *Report) {
	r.MinInstances["C04.R1"] = 2
	r.MinInstances["C04.R2"] = 2
	r.MinInstances["C04.R3"] = 3
	r.MinInstances["C04.R4"] = 6
	r.MinInstances["C04.R5"] = 4
	r.MinInstances["C04.R6"] = 2
	frameRule(p, r, "C04.R1", false, func(fs frameSite) bool { return strings.Contains(FuncName(fs.fn), "LanceroSource") })
	c04R2R3(p, r)
	c04R4(p, r)
	c04R5(p, r)
	c04R6(p, r)
}

// dependsOnField: does v (data flow within the function, through locals) depend on a load of the named field?
func dependsOnField(v ssa.Value, field string) bool {
	seen := map[ssa.Value]bool{}
	var walk func(v ssa.Value, d int) bool
	walk = func(v ssa.Value, d int) bool {
		if v == nil || seen[v] || d > 16 {
			return false
		}
		seen[v] = true
		if _, f, _, ok := FieldOf(v); ok && f == field {
			return true
		}
		if a, ok := v.(*ssa.Alloc); ok {
			for _, ref := range *a.Referrers() {
				if st, ok := ref.(*ssa.Store); ok && st.Addr == ssa.Value(a) && walk(st.Val, d+1) {
					return true
				}
			}
		}
		if in, ok := v.(ssa.Instruction); ok {
			for _, op := range in.Operands(nil) {
				if *op != nil && walk(*op, d+1) {
					return true
				}
			}
		}
		return false
	}
	return walk(v, 0)
}

func c04R2R3(p *Prog, r *Report) {
	fn := p.Func("", "LanceroSource", "distributeData")
	if fn == nil {
		r.Unk("C04.anchor", "LanceroSource.distributeData", "-", "anchor not found")
		return
	}
	r.Fn(FuncName(fn))
	// the buffers value: field datacopies of the message parameter
	isBuffers := func(v ssa.Value) bool {
		v2 := v
		if u, ok := v2.(*ssa.UnOp); ok && u.Op == token.MUL {
			if a, ok := u.X.(*ssa.Alloc); ok {
				for _, ref := range *a.Referrers() {
					if st, ok := ref.(*ssa.Store); ok && st.Addr == ssa.Value(a) {
						v2 = st.Val
					}
				}
			}
		}
		_, f, _, ok := FieldOf(v2)
		if ok && f == "datacopies" {
			return true
		}
		if fl, ok := v2.(*ssa.Field); ok {
			st := derefStruct(fl.X.Type())
			return st != nil && st.Field(fl.Field).Name() == "datacopies"
		}
		return false
	}
	// helpers of the source that are handed the buffers: there the parameter stands for them
	bufParam := map[ssa.Value]bool{}
	hosts := []*ssa.Function{fn}
	for _, h := range recvHelpers(fn, 2) {
		if h == fn {
			continue
		}
		sites, _ := p.staticCallSites(h)
		for _, site := range sites {
			cc := CallOf(site)
			if site.Parent() != fn || len(cc.Args) != len(h.Params) {
				continue
			}
			for i, a := range cc.Args {
				if isBuffers(a) {
					bufParam[h.Params[i]] = true
					hosts = append(hosts, h)
				}
			}
		}
	}
	isBuffers0 := isBuffers
	isBuffers = func(v ssa.Value) bool { return bufParam[v] || isBuffers0(v) }
	n := 0
	for _, host := range hosts {
		Instrs(host, func(in ssa.Instruction) {
			ia, ok := in.(*ssa.IndexAddr)
			if !ok || !isBuffers(ia.X) {
				return
			}
			n++
			if k, isC := constInt(ia.Index); isC {
				// constant index: only as argument of len()
				onlyLen := true
				for _, ref := range *ia.Referrers() {
					if u, ok := ref.(*ssa.UnOp); ok {
						for _, r2 := range *u.Referrers() {
							c, isCall := r2.(*ssa.Call)
							if !isCall {
								onlyLen = false
								continue
							}
							if b, ok := c.Call.Value.(*ssa.Builtin); !ok || b.Name() != "len" {
								onlyLen = false
							}
						}
					}
				}
				r.Check(onlyLen, "C04.R2", fmt.Sprintf("buffer index #%d (constant %d) is used only for a length", n, k), p.InstrPos(in), "len(datacopies[k])", "a readout-order buffer is addressed by a constant index for its contents")
				return
			}
			r.Check(dependsOnField(ia.Index, "chan2readoutOrder"), "C04.R2", fmt.Sprintf("buffer index #%d goes through the channel-to-readout table", n), p.InstrPos(in), "index derived from chan2readoutOrder",
				"the demultiplexed buffers (readout order: row-major) are indexed with `"+c05Describe(ia.Index, nil, 0)+"`, which does not go through the channel-to-readout table: with more than one column this addresses another row/column than intended")
		})
	}
	// the mixer of channel k works on the buffers the table gives for k (feedback) and k-1 (error):
	// the mixer objects are addressed by channel index (that is how mix fractions are requested)
	for _, host := range hosts {
		hpc := NewPolyCtx(host)
		Instrs(host, func(in ssa.Instruction) {
			cc := CallOf(in)
			if cc == nil || cc.StaticCallee() == nil || cc.StaticCallee().Name() != "MixRetardFb" || len(cc.Args) != 3 {
				return
			}
			// receiver: ls.Mix[K]
			var K ssa.Value
			if ld, ok := cc.Args[0].(*ssa.UnOp); ok && ld.Op == token.MUL {
				if ia, ok := ld.X.(*ssa.IndexAddr); ok {
					if _, f, _, okf := FieldOf(ia.X); okf && f == "Mix" {
						K = ia.Index
					}
				}
			} else if ia, ok := cc.Args[0].(*ssa.IndexAddr); ok {
				if _, f, _, okf := FieldOf(ia.X); okf && f == "Mix" {
					K = ia.Index
				}
			}
			key := "the mixer of a channel works on that channel's feedback buffer and its error partner's (" + FuncName(host) + ")"
			if K == nil {
				r.Unk("C04.R2", key, p.InstrPos(in), "the mixer object is not taken from the source's table of mixers by an index")
				return
			}
			// chanView: a slice made here and filled with view[i] = buffers[table[i]]: the buffers in channel order
			chanView := func(x ssa.Value) bool {
				mk, ok := x.(*ssa.MakeSlice)
				if !ok {
					return false
				}
				n, good := 0, true
				for _, ref := range *mk.Referrers() {
					ia, ok := ref.(*ssa.IndexAddr)
					if !ok {
						continue
					}
					for _, r2 := range *ia.Referrers() {
						st, ok := r2.(*ssa.Store)
						if !ok || st.Addr != ssa.Value(ia) {
							continue
						}
						n++
						okSt := false
						if ld, ok := st.Val.(*ssa.UnOp); ok && ld.Op == token.MUL {
							if b, ok := ld.X.(*ssa.IndexAddr); ok && isBuffers(b.X) {
								if tl, ok := stripConv(b.Index).(*ssa.UnOp); ok && tl.Op == token.MUL {
									if ta, ok := tl.X.(*ssa.IndexAddr); ok && ta.Index == ia.Index {
										if _, f, _, okf := FieldOf(ta.X); okf && f == "chan2readoutOrder" {
											okSt = true
										}
									}
								}
							}
						}
						good = good && okSt
					}
				}
				return n > 0 && good
			}
			viewed := map[ssa.Value]bool{}
			// the channel whose table entry selects the buffer handed over
			chanOf := func(arg ssa.Value) ssa.Value {
				var B ssa.Value
				switch x := arg.(type) {
				case *ssa.IndexAddr:
					if isBuffers(x.X) {
						B = x.Index
					} else if chanView(x.X) {
						viewed[arg] = true
						return x.Index
					}
				case *ssa.Alloc:
					for _, ref := range *x.Referrers() {
						if st, ok := ref.(*ssa.Store); ok && st.Addr == ssa.Value(x) {
							if ld, ok := st.Val.(*ssa.UnOp); ok && ld.Op == token.MUL {
								if ia, ok := ld.X.(*ssa.IndexAddr); ok && isBuffers(ia.X) {
									B = ia.Index
								} else if ok && chanView(ia.X) {
									viewed[arg] = true
									return ia.Index
								}
							}
						}
					}
				}
				if B == nil {
					return nil
				}
				if ld, ok := stripConv(B).(*ssa.UnOp); ok && ld.Op == token.MUL {
					if ia, ok := ld.X.(*ssa.IndexAddr); ok {
						if _, f, _, okf := FieldOf(ia.X); okf && f == "chan2readoutOrder" {
							return ia.Index
						}
					}
				}
				return B // not looked up in the table: the buffer index itself
			}
			fbCh, errCh := chanOf(cc.Args[1]), chanOf(cc.Args[2])
			if fbCh == nil || errCh == nil {
				r.Unk("C04.R2", key, p.InstrPos(in), "the buffers handed to the mixer are not elements of the demultiplexed buffers in a recognised form")
				return
			}
			viaTable := func(arg ssa.Value) bool {
				return viewed[arg] || dependsOnField(arg, "chan2readoutOrder") || argThroughTable(arg, isBuffers)
			}
			kP := hpc.Of(K)
			okFb := hpc.Of(fbCh).Equal(kP) && viaTable(cc.Args[1])
			okErr := hpc.Of(errCh).Equal(kP.Sub(polyConst(1))) && viaTable(cc.Args[2])
			r.Check(okFb && okErr, "C04.R2", key, p.InstrPos(in), "Mix[k] with buffers[table[k]] and buffers[table[k-1]]",
				"the mixer object Mix["+c05Describe(K, nil, 0)+"] (mixers are addressed by channel index: that is the index a mix request names) is applied to the buffers at `"+c05Describe(fbCh, nil, 0)+"` / `"+c05Describe(errCh, nil, 0)+"`"+map[bool]string{true: " of the channel-to-readout table", false: " in readout order, not through the channel-to-readout table"}[viaTable(cc.Args[1])]+": with more than one row and column the mix fraction requested for one channel acts on another, and the requested channel is delivered unmixed")
		})
	}
	if n == 0 {
		r.Bad("C04.R2", "block assembly indexes the demultiplexed buffers", p.Pos(fn.Pos()), "no index into the buffers found")
	}
	// table fill
	up := p.Func("", "LanceroSource", "updateChanOrderMap")
	if up == nil {
		r.Unk("C04.R2", "updateChanOrderMap", "-", "anchor not found")
	} else {
		r.Fn(FuncName(up))
		pc := NewPolyCtx(up)
		pc.G = true
		okFill := false
		desc := ""
		runningSeen := map[int]bool{}
		Instrs(up, func(in ssa.Instruction) {
			st, ok := in.(*ssa.Store)
			if !ok {
				return
			}
			ia, ok := st.Addr.(*ssa.IndexAddr)
			if !ok {
				return
			}
			if _, f, _, okf := FieldOf(ia.X); !okf || f != "chan2readoutOrder" {
				return
			}
			idx := pc.Of(ia.Index)
			val := pc.Of(st.Val)
			desc = "table[" + idx.String() + "] = " + val.String()
			// val = readIdx + prev ; idx = %(readIdx,2) + 2*/(/(readIdx,2),ncols) + 2*nrows*%(/(readIdx,2),ncols) + prev
			var w, prev string
			for s, c := range val {
				if c == 1 && strings.HasPrefix(s, "phi#") {
					if w == "" {
						w = s
					} else {
						prev = s
					}
				}
			}
			// the same table written as nested loops over row, column and error/feedback:
			// word = e + 2*(c + r*ncols), channel = e + 2*r + 2*nrows*c, with e < 2, r < nrows, c < ncols
			if nested := func() bool {
				var phis []string
				for _, sym := range val.Symbols() {
					if strings.HasPrefix(sym, "phi#") {
						phis = append(phis, sym)
					}
				}
				var nrows, ncols string
				for _, sym := range append(idx.Symbols(), val.Symbols()...) {
					if strings.HasSuffix(basePath(sym), ".nrows") {
						nrows = sym
					}
					if strings.HasSuffix(basePath(sym), ".ncols") {
						ncols = sym
					}
				}
				if len(phis) != 4 || nrows == "" || ncols == "" {
					return false
				}
				bound := func(phi string) Poly {
					ph, _ := pc.symVal[phi].(*ssa.Phi)
					if ph == nil {
						return nil
					}
					for _, ref := range *ph.Referrers() {
						if bo, ok := ref.(*ssa.BinOp); ok && bo.Op == token.LSS && bo.X == ssa.Value(ph) {
							return pc.Of(bo.Y)
						}
					}
					return nil
				}
				two := polyConst(2)
				for _, e := range phis {
					for _, rr := range phis {
						for _, cc := range phis {
							for _, pv := range phis {
								if e == rr || e == cc || e == pv || rr == cc || rr == pv || cc == pv {
									continue
								}
								wantVal := polySym(e).Add(polySym(cc).Mul(two)).Add(polySym(rr).Mul(polySym(ncols)).Mul(two)).Add(polySym(pv))
								wantIdx := polySym(e).Add(polySym(rr).Mul(two)).Add(polySym(cc).Mul(polySym(nrows)).Mul(two)).Add(polySym(pv))
								if !val.Equal(wantVal) || !idx.Equal(wantIdx) {
									continue
								}
								be, br, bc := bound(e), bound(rr), bound(cc)
								if be != nil && br != nil && bc != nil && be.Equal(two) && br.Equal(polySym(nrows)) && bc.Equal(polySym(ncols)) {
									return true
								}
							}
						}
					}
				}
				return false
			}(); nested {
				okFill = true
				return
			}
			// the same table walked in readout order with a running word counter: two stores per
			// pixel (error, feedback); the counter's closed form is prev + 2*(c + r*ncols)
			if running := func() int {
				idx2, val2 := closeIVs(pc, idx), closeIVs(pc, val)
				var phis []string
				for _, sym := range val2.Symbols() {
					if strings.HasPrefix(sym, "phi#") {
						phis = append(phis, sym)
					}
				}
				var nrows, ncols string
				for _, sym := range append(idx2.Symbols(), val2.Symbols()...) {
					if strings.HasSuffix(basePath(sym), ".nrows") {
						nrows = sym
					}
					if strings.HasSuffix(basePath(sym), ".ncols") {
						ncols = sym
					}
				}
				if len(phis) != 3 || nrows == "" || ncols == "" {
					return -1
				}
				bound := func(phi string) Poly {
					ph, _ := pc.symVal[phi].(*ssa.Phi)
					if ph == nil {
						if v, ok := pc.symValue(phi); ok {
							ph, _ = v.(*ssa.Phi)
						}
					}
					if ph == nil {
						return nil
					}
					for _, ref := range *ph.Referrers() {
						if bo, ok := ref.(*ssa.BinOp); ok && bo.Op == token.LSS && bo.X == ssa.Value(ph) {
							return pc.Of(bo.Y)
						}
					}
					return nil
				}
				two := polyConst(2)
				for _, rr := range phis {
					for _, cc := range phis {
						for _, pv := range phis {
							if rr == cc || rr == pv || cc == pv {
								continue
							}
							for e := int64(0); e < 2; e++ {
								wantVal := polyConst(e).Add(polySym(cc).Mul(two)).Add(polySym(rr).Mul(polySym(ncols)).Mul(two)).Add(polySym(pv))
								wantIdx := polyConst(e).Add(polySym(rr).Mul(two)).Add(polySym(cc).Mul(polySym(nrows)).Mul(two)).Add(polySym(pv))
								if !val2.Equal(wantVal) || !idx2.Equal(wantIdx) {
									continue
								}
								br, bc := bound(rr), bound(cc)
								if br != nil && bc != nil && br.Equal(polySym(nrows)) && bc.Equal(polySym(ncols)) {
									return int(e)
								}
							}
						}
					}
				}
				return -1
			}(); running >= 0 {
				runningSeen[running] = true
				if runningSeen[0] && runningSeen[1] {
					okFill = true
				}
				return
			}
			if w == "" || prev == "" || len(val) != 2 {
				return
			}
			try := func(w, prev string) bool {
				half := "/(" + w + ",2)"
				var nrows, ncols string
				for _, s := range idx.Symbols() {
					if strings.HasSuffix(basePath(s), ".nrows") {
						nrows = s
					}
				}
				for s := range pc.opArgs {
					if strings.HasPrefix(s, "/("+half+",") || strings.HasPrefix(s, "%("+half+",") {
						a := pc.opArgs[s]
						if len(a) == 2 {
							for _, s2 := range a[1].Symbols() {
								ncols = s2
							}
						}
					}
				}
				if nrows == "" || ncols == "" {
					return false
				}
				row := "/(" + half + "," + ncols + ")"
				col := "%(" + half + "," + ncols + ")"
				want := polySym("%(" + w + ",2)").Add(polySym(row).Mul(polyConst(2))).Add(polySym(col).Mul(polySym(nrows)).Mul(polyConst(2))).Add(polySym(prev))
				return idx.Equal(want)
			}
			if try(w, prev) || try(prev, w) {
				okFill = true
			}
		})
		r.Check(okFill, "C04.R2", "the channel-to-readout table is error-then-feedback, column-major", p.Pos(up.Pos()), desc, "the table is filled as "+desc+"; want channel = (w%2) + 2*((w/2)/cols) + 2*rows*((w/2)%cols) for readout word w")
	}

	// R3: nil-guarded map lookups
	g := NewGuardCtx(p, fn, nil)
	nl := 0
	Instrs(fn, func(in ssa.Instruction) {
		var ptr ssa.Value
		switch x := in.(type) {
		case *ssa.FieldAddr:
			ptr = x.X
		case *ssa.UnOp:
			if x.Op == token.MUL {
				ptr = x.X
			}
		}
		lk, ok := ptr.(*ssa.Lookup)
		if !ok || lk.CommaOk {
			return
		}
		if _, isPtr := lk.Type().Underlying().(*types.Pointer); !isPtr {
			return
		}
		nl++
		okN, why := nonNilAt(g, lk, in)
		r.Check(okN, "C04.R3", fmt.Sprintf("device looked up in the card map #%d is checked before use", nl), p.InstrPos(in), why, "a device pointer taken from the card map with key `"+c05Describe(lk.Index, nil, 0)+"` is dereferenced without a nil test: when that card is not active (or absent) every block panics")
	})
	// row count provenance and recorded value; the scan may sit in a helper method of the source
	for _, h := range recvHelpers(fn, 2) {
		if h != fn && len(StoresTo(h, "LanceroSource", "externalTriggerLastState")) > 0 && len(StoresTo(fn, "LanceroSource", "externalTriggerLastState")) == 0 {
			fn = h
			r.Fn(FuncName(fn))
		}
	}
	pc := NewPolyCtx(fn)
	pc.G = true
	var appended ssa.Value
	var appendAt ssa.Instruction
	Instrs(fn, func(in ssa.Instruction) {
		c, ok := in.(*ssa.Call)
		if !ok {
			return
		}
		if b, ok := c.Call.Value.(*ssa.Builtin); !ok || b.Name() != "append" {
			return
		}
		if sl, ok := c.Call.Args[0].Type().Underlying().(*types.Slice); !ok || sl.Elem().String() != "int64" {
			return
		}
		if e := appendedElem(c); e != nil {
			appended, appendAt = e, in
		}
	})
	if appended == nil {
		r.Bad("C04.R3", "external-trigger counts are recorded", p.Pos(fn.Pos()), "no append of an int64 count found")
		return
	}
	d := pc.Of(appended)
	// (frame + counter)*nrows + row
	var frameS, rowS, ctrS, nrowsS string
	for _, s := range d.Symbols() {
		switch {
		case strings.HasSuffix(basePath(s), "nextFrameNum"):
			ctrS = s
		case strings.HasSuffix(basePath(s), ".nrows"):
			nrowsS = s
		}
	}
	okForm := false
	if ctrS != "" && nrowsS != "" {
		// remaining two phi symbols
		var phis []string
		for _, s := range d.Symbols() {
			if strings.HasPrefix(s, "phi#") {
				phis = append(phis, s)
			}
		}
		if len(phis) == 2 {
			for _, perm := range [][2]string{{phis[0], phis[1]}, {phis[1], phis[0]}} {
				frameS, rowS = perm[0], perm[1]
				want := polySym(frameS).Add(polySym(ctrS)).Mul(polySym(nrowsS)).Add(polySym(rowS))
				if d.Equal(want) {
					okForm = true
					break
				}
			}
		}
	}
	r.Check(okForm, "C04.R3", "the recorded count is (frame + block counter)*rows + row", p.InstrPos(appendAt), d.String(), "the recorded external-trigger count is "+d.String()+", want (frame + nextFrameNum)*nrows + row")
	// ... and the counter is read as it stands before this block is numbered: no advance of the
	// counter (a store, or a call of a helper that stores it) can come before the read
	if okForm {
		if cv, okv := pc.symValue(ctrS); okv {
			if ld, isIn := cv.(ssa.Instruction); isIn && ld.Parent() == fn {
				advanced := ""
				Instrs(fn, func(in ssa.Instruction) {
					adv := false
					if st, ok := in.(*ssa.Store); ok {
						if _, f, _, okf := FieldOf(st.Addr); okf && f == "nextFrameNum" {
							adv = true
						}
					}
					if cc := CallOf(in); cc != nil {
						if h := cc.StaticCallee(); isModuleFn(h) && h != fn {
							for _, hf := range DeepFuncs(h, 2) {
								if len(StoresTo(hf, "", "nextFrameNum")) > 0 {
									adv = true
								}
							}
						}
					}
					if adv && in != ld && InstrReaches(in, ld) {
						advanced = p.InstrPos(in)
					}
				})
				r.Check(advanced == "", "C04.R3", "the block counter in the recorded count is read before the block is numbered", p.InstrPos(ld), "no advance of the frame counter can precede the read",
					"the frame counter used for the external-trigger counts is read after it was advanced at "+advanced+": it is then the number of the frame after this block, so every count is too large by this block's frames (times the rows), a shift that differs from block to block, and no longer names the frame and row in which the edge rose")
			}
		}
	}
	// nrows comes from an active card
	if nrowsS != "" {
		okSrc := strings.Contains(nrowsS, "active") && !strings.Contains(nrowsS, "devices")
		r.Check(okSrc, "C04.R3", "the row count comes from an active card", p.InstrPos(appendAt), nrowsS, "the row count used for external-trigger counts is read from `"+nrowsS+"`, not from an active card")
	}
	// rising edge: append under state && !lastState, lastState stored every row iteration
	okEdge := false
	for _, c := range controllingIfs(appendAt.Block()) {
		dd := c05Describe(c.If.Cond, nil, 0)
		if strings.Contains(dd, "externalTriggerLastState") {
			okEdge = true
		}
	}
	var lastStore *ssa.Store
	for _, st := range StoresTo(fn, "LanceroSource", "externalTriggerLastState") {
		lastStore = st
	}
	okCarry := lastStore != nil && sameTightLoop(lastStore.Block(), appendAt.Block()) && !isConstBool(lastStore.Val)
	r.Check(okEdge && okCarry, "C04.R3", "a count is recorded only on a 0->1 transition against the carried previous state", p.InstrPos(appendAt), "guarded by !lastState; lastState refreshed from the current bit every row", "the external-trigger scan does not compare with the previous row's state carried in the state field (edges are counted more than once or missed across block boundaries)")
}

func isConstBool(v ssa.Value) bool {
	_, ok := v.(*ssa.Const)
	return ok
}

func c04R4(p *Prog, r *Report) {
	fn := p.Func("", "Mix", "MixRetardFb")
	if fn == nil {
		r.Unk("C04.R4", "Mix.MixRetardFb", "-", "anchor not found")
		return
	}
	r.Fn(FuncName(fn))
	// two loops; in each: fb := m.lastFb ; m.lastFb = fbs[j] & mask ; fbs[j] = f(fb)
	type arm struct {
		loadOld  ssa.Value
		storeNew *ssa.Store
		outs     []*ssa.Store
	}
	var arms []*arm
	for _, st := range StoresTo(fn, "Mix", "lastFb") {
		a := &arm{storeNew: st}
		arms = append(arms, a)
	}
	// every loop that writes output samples carries the previous sample through the state field
	// (the fast path and the mixing path may be two loops or one loop with a flag)
	uncarried := ""
	nOutLoops := 0
	Instrs(fn, func(in ssa.Instruction) {
		st, ok := in.(*ssa.Store)
		if !ok || !InLoop(st) {
			return
		}
		if _, isIA := st.Addr.(*ssa.IndexAddr); !isIA {
			return
		}
		nOutLoops++
		has := false
		for _, a := range arms {
			if sameTightLoop(st.Block(), a.storeNew.Block()) || sameTightLoop(a.storeNew.Block(), st.Block()) || InLoopWith(a.storeNew, st) {
				has = true
			}
		}
		if !has {
			uncarried = p.InstrPos(st)
		}
	})
	r.Check(len(arms) >= 1 && nOutLoops >= 1 && uncarried == "", "C04.R4", "both arms of the mixer carry the previous sample in the state field", p.Pos(fn.Pos()), fmt.Sprintf("%d store(s) to lastFb, one in every loop that writes output samples", len(arms)), fmt.Sprintf("%d stores to the carried-sample field; the loop that writes output at %s does not refresh it (want one per arm)", len(arms), uncarried))
	// the error is mixed in unless the scale is exactly zero: the scale is tested for (in)equality
	// with zero only (a negative mix fraction is accepted when it is configured)
	Instrs(fn, func(in ssa.Instruction) {
		bo, ok := in.(*ssa.BinOp)
		if !ok {
			return
		}
		var other ssa.Value
		if _, f, _, okf := FieldOf(bo.X); okf && f == "errorScale" {
			other = bo.Y
		} else if _, f, _, okf := FieldOf(bo.Y); okf && f == "errorScale" {
			other = bo.X
		}
		if other == nil {
			return
		}
		c, isC := other.(*ssa.Const)
		if !isC || c.Value == nil {
			return
		}
		if fv, _ := constant.Float64Val(constant.ToFloat(c.Value)); fv != 0 {
			return
		}
		switch bo.Op {
		case token.EQL, token.NEQ:
			r.OK("C04.R4", "the mixing path is chosen by errorScale != 0", p.InstrPos(bo), "(in)equality with zero")
		case token.GTR, token.LSS, token.GEQ, token.LEQ:
			r.Bad("C04.R4", "the mixing path is chosen by errorScale != 0", p.InstrPos(bo), "the scale is compared with zero by `"+bo.Op.String()+"`: a mix fraction of one sign (accepted and reported back by the configuration request) takes the path without mixing, so the feedback of that channel is delivered delayed but without the scaled error added")
		}
	})
	for i, a := range arms {
		key := fmt.Sprintf("mixer arm %d", i+1)
		// stored value = elem & mask(^3)
		okMask := false
		if bo, ok := stripConv(a.storeNew.Val).(*ssa.BinOp); ok && bo.Op == token.AND {
			if k, isC := constInt(bo.Y); isC && (uint16(k) == 0xfffc) {
				if u, ok := stripConv(bo.X).(*ssa.UnOp); ok {
					if _, isIA := u.X.(*ssa.IndexAddr); isIA {
						okMask = true
					}
				}
			}
		}
		r.Check(okMask, "C04.R4", key+": the carried sample is the current feedback sample with its two flag bits cleared", p.InstrPos(a.storeNew), "lastFb = fbs[j] & ^0x03", "the carried sample is not the current sample with exactly the two low flag bits cleared")
		// the old value is loaded before the store in the same block, and an output store to fbs[j] in the loop uses it
		var old *ssa.UnOp
		for _, in := range a.storeNew.Block().Instrs {
			if in == ssa.Instruction(a.storeNew) {
				break
			}
			if u, ok := in.(*ssa.UnOp); ok && u.Op == token.MUL {
				if _, f, _, okf := FieldOf(u); okf && f == "lastFb" {
					old = u
				}
			}
		}
		r.Check(old != nil, "C04.R4", key+": the previous sample is read before it is replaced", p.InstrPos(a.storeNew), "load precedes store", "the carried sample is overwritten before it is read: the feedback is not delayed by one sample")
		if old == nil {
			continue
		}
		// outputs: stores to element of *fbs in the same loop depend on old
		nOut, okOut := 0, true
		Instrs(fn, func(in ssa.Instruction) {
			st, ok := in.(*ssa.Store)
			if !ok || !sameTightLoop(st.Block(), a.storeNew.Block()) {
				return
			}
			if _, isIA := st.Addr.(*ssa.IndexAddr); !isIA {
				return
			}
			nOut++
			if _, isC := stripConv(st.Val).(*ssa.Const); isC {
				return // saturation constants
			}
			if !dependsOn(st.Val, old) {
				okOut = false
			}
		})
		r.Check(nOut >= 1 && okOut, "C04.R4", key+": the output is built from the previous sample", p.InstrPos(a.storeNew), fmt.Sprintf("%d output stores", nOut), "an output sample does not derive from the carried previous sample")
	}
	// signed error and saturation in the mixing arm
	okSigned := false
	Instrs(fn, func(in ssa.Instruction) {
		cv, ok := in.(*ssa.Convert)
		if !ok {
			return
		}
		if b, ok := cv.Type().Underlying().(*types.Basic); ok && b.Kind() == types.Int16 {
			if u, ok := stripConv(cv.X).(*ssa.UnOp); ok {
				if _, isIA := u.X.(*ssa.IndexAddr); isIA {
					okSigned = true
				}
			}
		}
	})
	r.Check(okSigned, "C04.R4", "the error sample enters the mix as a signed 16-bit value", p.Pos(fn.Pos()), "int16(errs[j])", "the error sample is not reinterpreted as signed before scaling")
	hi, lo := false, false
	Instrs(fn, func(in ssa.Instruction) {
		st, ok := in.(*ssa.Store)
		if !ok {
			return
		}
		if _, isIA := st.Addr.(*ssa.IndexAddr); !isIA {
			return
		}
		k, isC := constInt(stripConv(st.Val))
		if !isC {
			return
		}
		for _, c := range controllingIfs(st.Block()) {
			d := c05Describe(c.If.Cond, nil, 0)
			if k == 65535 && strings.Contains(d, ">=") && strings.Contains(d, "65535") && c.Branch == 0 {
				hi = true
			}
			if k == 0 && strings.Contains(d, "<") && strings.Contains(d, "const 0") && c.Branch == 0 {
				lo = true
			}
		}
	})
	if !hi || !lo {
		// the clamp in a helper that returns the limits under the two tests (`saturate(x)`)
		Instrs(fn, func(in ssa.Instruction) {
			st, ok := in.(*ssa.Store)
			if !ok {
				return
			}
			if _, isIA := st.Addr.(*ssa.IndexAddr); !isIA {
				return
			}
			seenH := map[ssa.Value]bool{}
			var follow func(v ssa.Value, d int)
			follow = func(v ssa.Value, d int) {
				v = stripConv(v)
				if v == nil || seenH[v] || d > 6 {
					return
				}
				seenH[v] = true
				switch x := v.(type) {
				case *ssa.Phi:
					for _, e := range x.Edges {
						follow(e, d+1)
					}
				case *ssa.Call:
					h := x.Call.StaticCallee()
					if !isModuleFn(h) || x.Call.IsInvoke() {
						return
					}
					Instrs(h, func(y ssa.Instruction) {
						ret, ok := y.(*ssa.Return)
						if !ok || len(ret.Results) != 1 {
							return
						}
						k, isC := constInt(stripConv(ret.Results[0]))
						if !isC {
							return
						}
						for _, c := range controllingIfs(ret.Block()) {
							d := c05Describe(c.If.Cond, nil, 0)
							if k == 65535 && strings.Contains(d, ">=") && strings.Contains(d, "65535") && c.Branch == 0 {
								hi = true
							}
							if k == 0 && strings.Contains(d, "<") && strings.Contains(d, "const 0") && c.Branch == 0 {
								lo = true
							}
						}
					})
				}
			}
			follow(st.Val, 0)
		})
	}
	if !hi || !lo {
		// the same clamp written with math.Max / math.Min around the value that is rounded and stored
		Instrs(fn, func(in ssa.Instruction) {
			st, ok := in.(*ssa.Store)
			if !ok {
				return
			}
			if _, isIA := st.Addr.(*ssa.IndexAddr); !isIA {
				return
			}
			seen := map[ssa.Value]bool{}
			var walk func(v ssa.Value, d int)
			walk = func(v ssa.Value, d int) {
				if v == nil || seen[v] || d > 8 {
					return
				}
				seen[v] = true
				if call, ok := v.(*ssa.Call); ok {
					name := CalleeName(&call.Call)
					for _, a := range call.Call.Args {
						if c, isC := a.(*ssa.Const); isC && c.Value != nil {
							f, _ := constant.Float64Val(constant.ToFloat(c.Value))
							if name == "math.Min" && f == 65535 {
								hi = true
							}
							if name == "math.Max" && f == 0 {
								lo = true
							}
						}
					}
				}
				if instr, ok := v.(ssa.Instruction); ok {
					var ops []*ssa.Value
					for _, o := range instr.Operands(ops) {
						walk(*o, d+1)
					}
				}
			}
			walk(st.Val, 0)
		})
	}
	r.Check(hi && lo, "C04.R4", "the mixed value saturates at 0 and 65535", p.Pos(fn.Pos()), "two clamping arms", fmt.Sprintf("saturation arms: high=%v low=%v", hi, lo))
}

func c04R5(p *Prog, r *Report) {
	// the reader goroutine: the closure that sends on buffersChan
	var fn *ssa.Function
	for _, f := range p.LibFuncs() {
		if !strings.Contains(FuncName(f), "LanceroSource") {
			continue
		}
		Instrs(f, func(in ssa.Instruction) {
			if s, ok := in.(*ssa.Send); ok && typeName(s.X.Type()) == "BuffersChanType" {
				fn = f
			}
		})
	}
	if fn == nil {
		r.Unk("C04.R5", "Lancero reader loop", "-", "no function sends a BuffersChanType")
		return
	}
	r.Fn(FuncName(fn))
	pc := NewPolyCtx(fn)
	pc.G = true
	// dc[j] = buffer[idx]; idx phi(i, idx+nchan)
	okCopy := false
	desc := ""
	Instrs(fn, func(in ssa.Instruction) {
		st, ok := in.(*ssa.Store)
		if !ok {
			return
		}
		dst, ok := st.Addr.(*ssa.IndexAddr)
		if !ok {
			return
		}
		u, ok := st.Val.(*ssa.UnOp)
		if !ok {
			return
		}
		src, ok := u.X.(*ssa.IndexAddr)
		if !ok {
			return
		}
		var seed, step Poly
		if idx, isPhi := src.Index.(*ssa.Phi); isPhi && len(idx.Edges) == 2 {
			// running index: idx = phi(i, idx+nchan)
			for _, e := range idx.Edges {
				if bo, ok := e.(*ssa.BinOp); ok && bo.Op == token.ADD && bo.X == ssa.Value(idx) {
					step = pc.Of(bo.Y)
				} else {
					seed = pc.Of(e)
				}
			}
		} else if jp := pc.Of(dst.Index); len(jp) == 1 && len(jp.Symbols()) == 1 && jp[jp.Symbols()[0]] == 1 {
			// closed form: buffer[i + j*nchan] with j the sample index of the destination
			if c, rest, ok := pc.Of(src.Index).SplitLinear(jp.Symbols()[0]); ok && len(c) > 0 {
				seed, step = rest, c
			}
		}
		if seed == nil || step == nil {
			return
		}
		// dc = datacopies[i + prev]; seed == i; step == nchan == ncols*nrows*2
		var dcIdx Poly
		if du, ok := dst.X.(*ssa.UnOp); ok {
			if dia, ok := du.X.(*ssa.IndexAddr); ok {
				dcIdx = pc.Of(dia.Index)
			}
		}
		if dcIdx == nil {
			return
		}
		desc = fmt.Sprintf("datacopies[%s][j] = buffer[%s + j*(%s)]", dcIdx, seed, step)
		rest := dcIdx.Sub(seed)
		okPrev := len(rest) == 1
		okStep := false
		for s := range step {
			if strings.Contains(s, "ncols") && strings.Contains(s, "nrows") && step[s] == 2 && len(step) == 1 {
				okStep = true
			}
		}
		if okPrev && okStep {
			okCopy = true
		}
	})
	r.Check(okCopy, "C04.R5", "word i of frame j of a card goes to buffer i (+ earlier cards' channels), sample j", p.Pos(fn.Pos()), desc, "the demultiplexing copy is "+desc+"; want buffer[i + j*2*cols*rows] -> datacopies[i + channels of earlier cards][j]")
	// release = framesUsed * frameSize per device
	nRel, okRel := 0, true
	var framesUsed Poly
	Instrs(fn, func(in ssa.Instruction) {
		if m, ok := in.(*ssa.MakeSlice); ok {
			if typeName(m.Type().Underlying().(*types.Slice).Elem()) == "RawType" {
				framesUsed = pc.Of(m.Len)
			}
		}
	})
	relWhy := ""
	// deferred: fields of the device that a release adds to the frames (a skip count kept for the
	// next release), each with whether the releasing helper clears it afterwards on every path
	deferredField := map[string]bool{}
	InstrsDeep(fn, 1, func(dd DeepInstr) {
		in := dd.In
		cc := CallOf(in)
		if cc == nil || !cc.IsInvoke() || cc.Method.Name() != "ReleaseBytes" || framesUsed == nil {
			return
		}
		d := pc.Of(cc.Args[0])
		if len(dd.Path) == 1 {
			// inside a helper: its polynomial in the caller's terms
			h := in.Parent()
			hc := NewPolyCtx(h)
			tr, _ := callTranslator(h, dd.Path[0], pc, hc)
			d = tr(hc.Of(cc.Args[0]))
		}
		if !strings.Contains(d.String(), "frameSize") {
			return // the re-alignment release
		}
		nRel++
		okThis := false
		extra := 0
		for s, c := range d {
			if c == 1 && strings.Contains(s, "frameSize") {
				// monomial = framesUsed * frameSize
				for fs := range framesUsed {
					if strings.Contains(s, fs) {
						okThis = true
					}
				}
				continue
			}
			// + a field of the device: a skip count deferred to this release
			if c == 1 && !strings.Contains(s, "*") && strings.Contains(s, ".") {
				f := s[strings.LastIndex(s, ".")+1:]
				if i := strings.Index(f, "{"); i >= 0 {
					f = f[:i]
				}
				h := in.Parent()
				isClear := func(x ssa.Instruction) bool {
					st, ok := x.(*ssa.Store)
					if !ok {
						return false
					}
					_, ff, _, okf := FieldOf(st.Addr)
					k, isC := constInt(st.Val)
					return okf && ff == f && isC && k == 0
				}
				cleared := len(ReachAvoiding(h, in, isClear, func(x ssa.Instruction) bool {
					if isReturn(x) {
						return true
					}
					c2 := CallOf(x)
					return c2 != nil && c2.IsInvoke() && c2.Method.Name() == "AvailableBuffer"
				})) == 0
				deferredField[f] = cleared
				if !cleared {
					relWhy = "the release at " + p.InstrPos(in) + " adds the count kept in " + f + ", which is not set back to zero afterwards: the bytes skipped after one data drop are released again with every later read, the read position leaves the frame boundary, and every second read is taken for another drop"
					okRel = false
				}
				extra++
				continue
			}
			extra += 2
		}
		if !okThis || extra > 1 {
			okRel = false
		}
	})
	if relWhy == "" {
		relWhy = "the bytes released to the driver are not frames-used x frame-size: data is skipped or read twice"
	}
	r.Check(nRel >= 1 && okRel, "C04.R5", "each card is told to release exactly frames-used x frame-size bytes", p.Pos(fn.Pos()), fmt.Sprintf("%d release calls", nRel), relWhy)
	// re-alignment after a data drop: when the read buffer is cut at a non-zero offset L (the
	// bytes in front of the first whole frame), those L bytes are released to the driver on
	// every path before the next read - otherwise the next read starts at the same mid-frame
	// position and every later block is mis-aligned
	Instrs(fn, func(in ssa.Instruction) {
		sl, ok := in.(*ssa.Slice)
		if !ok || sl.Low == nil {
			return
		}
		if _, isByte := sl.Type().Underlying().(*types.Slice); !isByte || sl.Type().Underlying().(*types.Slice).Elem().String() != "byte" {
			return
		}
		if k, isC := constInt(sl.Low); isC && k == 0 {
			return
		}
		L := pc.Of(sl.Low)
		if c, isC := L.IsConst(); isC && c == 0 {
			return
		}
		// the skip may be kept in a field of the device and released with the frames by a helper
		keptIn := map[string]bool{}
		Instrs(fn, func(x ssa.Instruction) {
			if st, ok := x.(*ssa.Store); ok {
				if _, f, _, okf := FieldOf(st.Addr); okf && pc.Of(st.Val).Equal(L) {
					if _, known := deferredField[f]; known {
						keptIn[f] = true
					}
				}
			}
		})
		releases := func(x ssa.Instruction) bool {
			// noted in a field that the next release adds (and clears): it stays pending across reads
			if st, ok := x.(*ssa.Store); ok {
				if _, f, _, okf := FieldOf(st.Addr); okf && keptIn[f] && pc.Of(st.Val).Equal(L) {
					return true
				}
			}
			cc := CallOf(x)
			if cc == nil {
				return false
			}
			if h := cc.StaticCallee(); isModuleFn(h) && !cc.IsInvoke() && len(keptIn) > 0 {
				hit := false
				Instrs(h, func(y ssa.Instruction) {
					c2 := CallOf(y)
					if c2 == nil || !c2.IsInvoke() || c2.Method.Name() != "ReleaseBytes" {
						return
					}
					hc := NewPolyCtx(h)
					for sym := range hc.Of(c2.Args[0]) {
						for f := range keptIn {
							if strings.HasSuffix(basePath(sym), "."+f) {
								hit = true
							}
						}
					}
				})
				if hit {
					return true
				}
			}
			if !cc.IsInvoke() || cc.Method.Name() != "ReleaseBytes" {
				return false
			}
			A := pc.Of(cc.Args[0])
			rest := A.Sub(L)
			return !mentionsAny(rest, L) && mentionsAny(A, L)
		}
		// a release that dominates the cut also counts (the original releases first, then cuts)
		domRel := false
		Instrs(fn, func(x ssa.Instruction) {
			if releases(x) && InstrDominates(x, in) {
				domRel = true
			}
		})
		esc := []ssa.Instruction{}
		if !domRel {
			esc = ReachAvoiding(fn, in, releases, func(x ssa.Instruction) bool {
				if cc := CallOf(x); cc != nil && cc.IsInvoke() && cc.Method.Name() == "AvailableBuffer" {
					return true
				}
				_, isRet := x.(*ssa.Return)
				return isRet
			})
		}
		r.Check(len(esc) == 0, "C04.R5", "bytes skipped in front of the first whole frame after a data drop are released", p.InstrPos(in), "a ReleaseBytes call whose argument contains the skipped byte count lies on every path to the next read",
			"the buffer is cut at offset "+L.String()+" but no ReleaseBytes call on the way to the next read includes those bytes: the driver's read position stays inside a frame, so every later read is detected as another drop and frame numbers run away")
	})
	// the 3-frame minimum of the property: shorter reads are skipped without releasing bytes,
	// and the frame-bit search runs only on reads of at least three frames
	okMin, minDesc := false, "no guard of the form len(b) < k*frameSize found"
	Instrs(fn, func(in ssa.Instruction) {
		iff, ok := in.(*ssa.If)
		if !ok {
			return
		}
		// len(b) < k*frameSize, however it is spelled (operands swapped, negated)
		lx, ly, shortSucc, ok := strictLess(iff.Cond)
		if !ok {
			return
		}
		rhs := pc.Of(ly)
		if len(rhs) != 1 {
			return
		}
		for sym, k := range rhs {
			if !strings.Contains(sym, "frameSize") || strings.Contains(sym, "*") {
				return
			}
			if !strings.HasPrefix(pc.Of(lx).String(), "len(") {
				return
			}
			minDesc = fmt.Sprintf("reads shorter than %d frames are skipped", k)
			// the short branch releases nothing
			short := iff.Block().Succs[shortSucc]
			rel := false
			for _, x := range short.Instrs {
				if cc := CallOf(x); cc != nil && cc.IsInvoke() && cc.Method.Name() == "ReleaseBytes" {
					rel = true
				}
			}
			// the frame-bit search is on the other branch
			search := false
			Instrs(fn, func(x ssa.Instruction) {
				if c, ok := x.(*ssa.Call); ok && c.Call.StaticCallee() != nil && c.Call.StaticCallee().Name() == "FindFrameBits" {
					if long := iff.Block().Succs[1-shortSucc]; long == c.Block() || long.Dominates(c.Block()) {
						search = true
					}
				}
			})
			okMin = k >= 3 && !rel && search
		}
	})
	if !okMin && minDesc == "no guard of the form len(b) < k*frameSize found" {
		// the guard may sit in a helper that checks the read and reports a short one as an error:
		// then the caller must be able to tell that error apart, and its way on to the next
		// read must release nothing
		Instrs(fn, func(in ssa.Instruction) {
			call, ok := in.(*ssa.Call)
			if !ok || call.Call.StaticCallee() == nil || !isModuleFn(call.Call.StaticCallee()) || call.Call.StaticCallee().Blocks == nil || okMin {
				return
			}
			h := call.Call.StaticCallee()
			hc := NewPolyCtx(h)
			Instrs(h, func(x ssa.Instruction) {
				iff, ok := x.(*ssa.If)
				if !ok || okMin {
					return
				}
				lx, ly, shortSucc, ok := strictLess(iff.Cond)
				if !ok {
					return
				}
				rhs := hc.Of(ly)
				if len(rhs) != 1 || !strings.HasPrefix(hc.Of(lx).String(), "len(") {
					return
				}
				var k int64
				for sym, co := range rhs {
					if !strings.Contains(sym, "frameSize") || strings.Contains(sym, "*") {
						return
					}
					k = co
				}
				short := iff.Block().Succs[shortSucc]
				ret, isRet := short.Instrs[len(short.Instrs)-1].(*ssa.Return)
				if !isRet || len(ret.Results) == 0 || !isErrorType(ret.Results[len(ret.Results)-1].Type()) {
					return
				}
				errIdx := len(ret.Results) - 1
				search := false
				Instrs(h, func(y ssa.Instruction) {
					if c, ok := y.(*ssa.Call); ok && c.Call.StaticCallee() != nil && c.Call.StaticCallee().Name() == "FindFrameBits" {
						if long := iff.Block().Succs[1-shortSucc]; long == c.Block() || long.Dominates(c.Block()) {
							search = true
						}
					}
				})
				minDesc = fmt.Sprintf("reads shorter than %d frames are reported by %s as an error", k, FuncName(h))
				// the sentinel, if the short-read error is one
				var sentinel *ssa.Global
				if ld, ok := ret.Results[errIdx].(*ssa.UnOp); ok && ld.Op == token.MUL {
					sentinel, _ = ld.X.(*ssa.Global)
				}
				// the caller's branch taken for that error
				var errVal ssa.Value
				for _, ref := range *call.Referrers() {
					if ex, ok := ref.(*ssa.Extract); ok && ex.Index == errIdx {
						errVal = ex
					}
				}
				if len(ret.Results) == 1 {
					errVal = call
				}
				if errVal == nil {
					return
				}
				var taken *ssa.BasicBlock
				Instrs(fn, func(y ssa.Instruction) {
					i2, ok := y.(*ssa.If)
					if !ok || taken != nil {
						return
					}
					bo, ok := i2.Cond.(*ssa.BinOp)
					if !ok || (bo.Op != token.EQL && bo.Op != token.NEQ) {
						return
					}
					other := bo.Y
					if bo.Y == errVal {
						other = bo.X
					} else if bo.X != errVal {
						return
					}
					side := 0
					if bo.Op == token.NEQ {
						side = 1
					}
					if sentinel != nil {
						if ld, ok := other.(*ssa.UnOp); ok && ld.Op == token.MUL && ld.X == ssa.Value(sentinel) {
							taken = i2.Block().Succs[side]
						}
						return
					}
					if cst, ok := other.(*ssa.Const); ok && cst.IsNil() {
						taken = i2.Block().Succs[1-side] // err != nil side
					}
				})
				if taken == nil {
					minDesc += ", but the reader has no branch for that error"
					return
				}
				rel := ReachAvoiding(fn, taken.Instrs[0], func(y ssa.Instruction) bool {
					cc := CallOf(y)
					return cc != nil && cc.IsInvoke() && cc.Method.Name() == "AvailableBuffer"
				}, func(y ssa.Instruction) bool {
					cc := CallOf(y)
					return cc != nil && cc.IsInvoke() && cc.Method.Name() == "ReleaseBytes"
				})
				for _, y := range taken.Instrs {
					if cc := CallOf(y); cc != nil && cc.IsInvoke() && cc.Method.Name() == "ReleaseBytes" {
						rel = append(rel, y)
					}
				}
				if len(rel) > 0 {
					minDesc += ", and the reader releases bytes on the way that error takes (at " + p.InstrPos(rel[0]) + ")"
					return
				}
				okMin = k >= 3 && search
			})
		})
	}
	r.Check(okMin, "C04.R5", "reads shorter than the 3-frame minimum are left for the next tick", p.Pos(fn.Pos()), minDesc, "the reader accepts reads shorter than three frames ("+minDesc+"): the frame-bit search fails on a read of exactly that many frames and the bytes are released unprocessed, silently losing frames")
	// buffer lengths all equal framesUsed: one make in a loop over all processors
	okLen := false
	Instrs(fn, func(in ssa.Instruction) {
		st, ok := in.(*ssa.Store)
		if !ok {
			return
		}
		if _, isMk := st.Val.(*ssa.MakeSlice); !isMk {
			return
		}
		if ia, ok := st.Addr.(*ssa.IndexAddr); ok {
			for _, l := range RangeLoops(fn) {
				if l.Idx == ia.Index {
					okLen = true
				}
			}
		}
	})
	r.Check(okLen, "C04.R5", "every channel buffer of a block has the same length", p.Pos(fn.Pos()), "one make(framesUsed) per channel in a range loop", "channel buffers are not all made with the block's frame count")
}

// ---- R6 -----------------------------------------------------------------------------------

// c04R6: the one-sample delay holds across block boundaries only if the sample carried in the
// mixer object survives from one block to the next: (a) the carried-sample field is written by the
// mixer's own methods only (or while a fresh object is built); (b) the table of mixer objects of a
// source, and its elements, are assigned only by functions the running data loop cannot reach (a
// mixer replaced between two blocks forgets the previous sample).
func c04R6(p *Prog, r *Report) {
	run := p.Func("", "LanceroSource", "getNextBlock")
	if run == nil {
		r.Unk("C04.R6", "getNextBlock", "-", "name-keyed anchor not found")
		return
	}
	top := func(f *ssa.Function) *ssa.Function {
		for f.Parent() != nil {
			f = f.Parent()
		}
		return f
	}
	nLast, badLast := 0, ""
	for _, fn := range p.LibFuncs() {
		for _, st := range StoresTo(fn, "Mix", "lastFb") {
			nLast++
			fa := st.Addr.(*ssa.FieldAddr)
			if _, fresh := fa.X.(*ssa.Alloc); fresh {
				continue
			}
			t := top(fn)
			if t.Signature.Recv() != nil && typeName(t.Signature.Recv().Type()) == "Mix" {
				continue
			}
			// handing the carried sample over from one mixer object to another keeps it
			if ld, ok := st.Val.(*ssa.UnOp); ok && ld.Op == token.MUL {
				if fa2, ok := ld.X.(*ssa.FieldAddr); ok && typeName(fa2.X.Type()) == "Mix" && derefStruct(fa2.X.Type()).Field(fa2.Field).Name() == "lastFb" {
					continue
				}
			}
			if badLast == "" {
				badLast = fmt.Sprintf("%s writes the carried sample of a mixer at %s: the previous feedback sample is no longer what the mixer saw last, so the stream is not delayed by exactly one sample there", FuncName(fn), p.InstrPos(st))
			}
		}
	}
	if nLast > 0 {
		r.Check(badLast == "", "C04.R6", "writers of the mixer's carried sample", "-", fmt.Sprintf("%d stores, all in the mixer's own methods or on a fresh object", nLast), badLast)
	}
	// (b) assignments of the table and of its elements
	isMixTable := func(addr ssa.Value) bool {
		fa, ok := addr.(*ssa.FieldAddr)
		if !ok {
			return false
		}
		st := derefStruct(fa.X.Type())
		return st != nil && st.Field(fa.Field).Name() == "Mix" && typeName(fa.X.Type()) == "LanceroSource"
	}
	seen := map[*ssa.Function]bool{}
	for _, fn := range p.LibFuncs() {
		var sites []*ssa.Store
		Instrs(fn, func(in ssa.Instruction) {
			st, ok := in.(*ssa.Store)
			if !ok {
				return
			}
			if isMixTable(st.Addr) {
				sites = append(sites, st)
				return
			}
			if ia, ok := st.Addr.(*ssa.IndexAddr); ok {
				if ld, ok := ia.X.(*ssa.UnOp); ok && ld.Op == token.MUL && isMixTable(ld.X) {
					sites = append(sites, st)
				}
			}
		})
		if len(sites) == 0 || seen[top(fn)] {
			continue
		}
		t := top(fn)
		seen[t] = true
		r.Fn(FuncName(t))
		reached, path := p.Reaches(run, func(f *ssa.Function) bool { return f == t || f == fn }, 10)
		key := "mixer objects assigned in " + FuncName(t) + " are not replaced while data flows"
		// a replacement that first takes over the carried sample of the object it replaces
		handsOver := true
		for _, st := range sites {
			ia, isElem := st.Addr.(*ssa.IndexAddr)
			if !isElem {
				handsOver = false
				continue
			}
			ok := false
			Instrs(fn, func(in ssa.Instruction) {
				s2, isSt := in.(*ssa.Store)
				if !isSt || !InstrDominates(s2, st) {
					return
				}
				fa, isFA := s2.Addr.(*ssa.FieldAddr)
				if !isFA || fa.X != st.Val || derefStruct(fa.X.Type()).Field(fa.Field).Name() != "lastFb" {
					return
				}
				// value: (table[index]).lastFb with the same table and index
				ld, isLd := s2.Val.(*ssa.UnOp)
				if !isLd {
					return
				}
				fa2, isFA2 := ld.X.(*ssa.FieldAddr)
				if !isFA2 || derefStruct(fa2.X.Type()).Field(fa2.Field).Name() != "lastFb" {
					return
				}
				if el, isEl := fa2.X.(*ssa.UnOp); isEl {
					if ia2, isIA := el.X.(*ssa.IndexAddr); isIA && ia2.Index == ia.Index {
						if l1, ok1 := ia2.X.(*ssa.UnOp); ok1 {
							if l0, ok0 := ia.X.(*ssa.UnOp); ok0 && isMixTable(l1.X) && isMixTable(l0.X) {
								ok = true
							}
						}
					}
				}
			})
			handsOver = handsOver && ok
		}
		if reached && handsOver {
			r.OK("C04.R6", key, p.InstrPos(sites[0]), "reachable from the running loop, but the new object takes over the carried sample of the one it replaces")
		} else if reached {
			r.Bad("C04.R6", key, p.InstrPos(sites[0]), "the running data loop reaches this assignment ("+pathString(path)+"): a mixer object replaced between two blocks has forgotten the previous feedback sample, so the first sample of the next block is mixed onto 0 instead of onto the sample before it")
		} else {
			r.OK("C04.R6", key, p.InstrPos(sites[0]), "not reachable from getNextBlock")
		}
	}
}

// argThroughTable: the buffer handed over (an element address, or a local holding an element) is
// selected by an index read from the channel-to-readout table.
func argThroughTable(arg ssa.Value, isBuffers func(ssa.Value) bool) bool {
	idx := func(v ssa.Value) ssa.Value {
		switch x := v.(type) {
		case *ssa.IndexAddr:
			if isBuffers(x.X) {
				return x.Index
			}
		case *ssa.Alloc:
			for _, ref := range *x.Referrers() {
				if st, ok := ref.(*ssa.Store); ok && st.Addr == ssa.Value(x) {
					if ld, ok := st.Val.(*ssa.UnOp); ok && ld.Op == token.MUL {
						if ia, ok := ld.X.(*ssa.IndexAddr); ok && isBuffers(ia.X) {
							return ia.Index
						}
					}
				}
			}
		}
		return nil
	}
	b := idx(arg)
	return b != nil && dependsOnField(b, "chan2readoutOrder")
}
