package main

// C07.R9: a flush request reaches every installed writer.  The per-channel Flush of the publisher
// is what PAUSE, STOP and the periodic clean-up rely on to put the records accepted so far into
// the files; each writer's flush step may depend on whether that writer is installed, and on
// nothing else - in particular not on the pause flag (the flush issued by PAUSE itself runs with
// the flag already set).  Decided by transitive control dependence of each flush call on the
// publisher's fields its controlling tests read.

import (
	"go/types"
	"sort"
	"strings"

	"golang.org/x/tools/go/ssa"
)

func c07R9(p *Prog, r *Report) {
	const pub = "DataPublisher"
	fn := p.Func("", pub, "Flush")
	if fn == nil {
		r.Unk("C07.R9", "DataPublisher.Flush", "-", "name-keyed anchor not found")
		return
	}
	r.Fn(FuncName(fn))
	var fieldsOf func(v ssa.Value, out map[string]bool, d int)
	fieldsOf = func(v ssa.Value, out map[string]bool, d int) {
		if v == nil || d > 8 {
			return
		}
		if o, f, _, ok := FieldOf(v); ok && o == pub {
			out[f] = true
			return
		}
		if call, ok := v.(*ssa.Call); ok {
			if g := call.Call.StaticCallee(); isModuleFn(g) && g.Signature.Recv() != nil && typeName(g.Signature.Recv().Type()) == pub {
				Instrs(g, func(in ssa.Instruction) {
					if u, ok := in.(*ssa.UnOp); ok {
						if o, f, _, okf := FieldOf(u); okf && o == pub {
							out[f] = true
						}
					}
					if c2, ok := in.(*ssa.Call); ok {
						fieldsOf(c2, out, d+1)
					}
				})
			}
			return
		}
		if in, ok := v.(ssa.Instruction); ok {
			var ops []*ssa.Value
			for _, o := range in.Operands(ops) {
				fieldsOf(*o, out, d+1)
			}
		}
	}
	// the writer handles: the pointer-typed fields of the publisher
	isHandleField := map[string]bool{}
	if nt := p.NamedType("", pub); nt != nil {
		if st, ok := nt.Underlying().(*types.Struct); ok {
			for i := 0; i < st.NumFields(); i++ {
				if _, isPtr := st.Field(i).Type().Underlying().(*types.Pointer); isPtr {
					isHandleField[st.Field(i).Name()] = true
				}
			}
		}
	}
	n := 0
	Instrs(fn, func(in ssa.Instruction) {
		cc := CallOf(in)
		if cc == nil || cc.StaticCallee() == nil || cc.StaticCallee().Name() != "Flush" || len(cc.Args) == 0 {
			return
		}
		o, h, _, ok := FieldOf(cc.Args[0])
		if !ok || o != pub {
			return
		}
		n++
		bad := ""
		for _, cd := range controlDependencesClosure(in.Block()) {
			fs := map[string]bool{}
			fieldsOf(cd.If.Cond, fs, 0)
			var other []string
			for f := range fs {
				// a bool field of the publisher (the pause flag) - the handles are pointers
				if f != h && !isHandleField[f] {
					other = append(other, f)
				}
			}
			if len(other) > 0 {
				sort.Strings(other)
				bad = "the test at " + p.InstrPos(cd.If) + " reads " + strings.Join(other, ", ")
			}
		}
		r.Check(bad == "", "C07.R9", "the flush of "+h+" in "+FuncName(fn)+" depends only on whether a writer is installed", p.InstrPos(in), "controlled by tests of the writer handles only",
			"whether the "+h+" writer is flushed depends on other state of the publisher: "+bad+". A flush request made while that state says so returns without flushing (the one PAUSE itself issues runs with the pause flag already set), so records accepted before the request are not in the file when it returns")
	})
	if n == 0 {
		r.Unk("C07.R9", "flush steps of "+FuncName(fn), p.Pos(fn.Pos()), "no flush of a writer handle found in the publisher's Flush")
	}
}
