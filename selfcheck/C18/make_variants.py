import sys,subprocess,os
muts = [
("r01",'\tcap := rb.desc.bufferSize\n\tavailable := int(w - r)\n','\tcap := rb.size\n\tavailable := int(w - r)\n'),
("r02",'\tvar bytesRead int\n\tif size > available {\n\t\tbytesRead = available\n\t} else {\n\t\tbytesRead = size\n\t}\n','\tbytesRead := min(size, available)\n'),
("r03",'\tif newRp%stride > 0 {\n\t\tnewRp -= newRp % stride\n\t}\n','\tnewRp -= newRp % stride\n'),
("r04",'\tnewRp := rb.desc.writePointer\n\tif newRp%stride > 0 {\n\t\tnewRp -= newRp % stride\n\t}\n','\tnewRp := (rb.desc.writePointer / stride) * stride\n'),
("r05",'dataWraps := wAfter/cap > w/cap','dataWraps := w/cap < wAfter/cap'),
("r06",'dataWraps := rAfter/cap > r/cap','dataWraps := rAfter/cap != r/cap'),
("r07",'\tnchunks := available / chunksize\n\treturn rb.Read(chunksize * nchunks)','\treturn rb.Read(available - available%chunksize)'),
("r08",'nextblocksize := bytesRead - len(data)\n\t\tdata = append','nextblocksize := int(rAfter % cap)\n\t\tdata = append'),
("r10",'\tif w-r >= cap {\n\t\treturn int(cap - 1)\n\t}\n\treturn int(w - r)\n','\tn := w - r\n\tif n >= cap {\n\t\tn = cap - 1\n\t}\n\treturn int(n)\n'),
("r11",'\tw := rb.desc.writePointer\n\tr := rb.desc.readPointer\n\tcap := rb.desc.bufferSize\n\tavailable := int(w - r)\n\tvar bytesRead','\tif size <= 0 {\n\t\treturn []byte{}, nil\n\t}\n\tw := rb.desc.writePointer\n\tr := rb.desc.readPointer\n\tcap := rb.desc.bufferSize\n\tavailable := int(w - r)\n\tvar bytesRead'),
("r12",'\tif dataWraps {\n\t\tnextblocksize := written - firstblocksize\n\t\tcopy(rb.raw[0:nextblocksize], data[firstblocksize:])\n\t}','\tif dataWraps {\n\t\tcopy(rb.raw[0:written-firstblocksize], data[firstblocksize:written])\n\t}'),
("r13",'\tavailable := int(cap - (w - r + 1))\n\tif len(data)','\tavailable := int(cap - 1 - (w - r))\n\tif len(data)'),
("r14",'\tif dataWraps && bytesRead > len(data) {','\tif dataWraps && len(data) < bytesRead {'),
]
s=open('/tmp/c18m/orig.go').read()
for name,old,new in muts:
    assert s.count(old)>=1,(name,old)
    s2=s.replace(old,new,1)
    for d,t in (('a',s),('b',s2)):
        os.makedirs('/tmp/c18m/%s/ringbuffer'%d,exist_ok=True)
        open('/tmp/c18m/%s/ringbuffer/ringbuffer.go'%d,'w').write(t)
    d=subprocess.run(['diff','-u','--label','a/ringbuffer/ringbuffer.go','--label','b/ringbuffer/ringbuffer.go','a/ringbuffer/ringbuffer.go','b/ringbuffer/ringbuffer.go'],cwd='/tmp/c18m',capture_output=True,text=True).stdout
    open('/tmp/c18m/%s.diff'%name,'w').write(d)
print(len(muts))
