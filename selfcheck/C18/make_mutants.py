import sys,subprocess,os
muts = [
("m01",'available := int(cap - (w - r + 1))\n\tif len(data)','available := int(cap - (w - r))\n\tif len(data)'),
("m02",'dataWraps := rAfter/cap > r/cap','dataWraps := rAfter/cap >= r/cap'),
("m03",'rAfter := r + uint64(bytesRead)','rAfter := r + uint64(size)'),
("m04",'\tif dataWraps && bytesRead > len(data) {\n\t\tnextblocksize := bytesRead - len(data)\n\t\tdata = append(data, rb.raw[0:nextblocksize]...)\n\t}\n',''),
("m05",'nextblocksize := bytesRead - len(data)','nextblocksize := bytesRead - len(data) - 1'),
("m06",'return rb.Read(chunksize * nchunks)','return rb.Read(nchunks)'),
("m07",'newRp -= newRp % stride','newRp += stride - newRp%stride'),
("m08",'\tif bytesRead <= 0 {\n\t\treturn []byte{}, nil\n\t}\n',''),
("m09",'rawbegin := r % cap\n\trawend := rAfter % cap','rawbegin := (r + 1) % cap\n\trawend := rAfter % cap'),
("m10",'func (rb *RingBuffer) DiscardAll() (err error) {\n\treturn rb.DiscardStride(1)','func (rb *RingBuffer) DiscardAll() (err error) {\n\trb.desc.writePointer = 0\n\trb.desc.readPointer = 0\n\treturn nil'),
("m11",'\treturn int(w - r)\n}','\treturn int(w - r + 1)\n}'),
("m12",'if size > available {','if size >= available {'),
("m13",'available := int(w - r)\n\tvar bytesRead','available := int(w-r) - 1\n\tvar bytesRead'),
("m14",'if size > available {\n\t\tbytesRead = available\n\t} else {\n\t\tbytesRead = size\n\t}','if size < available {\n\t\tbytesRead = available\n\t} else {\n\t\tbytesRead = size\n\t}'),
("m15",'copy(rb.raw[0:nextblocksize], data[firstblocksize:])','copy(rb.raw[0:nextblocksize], data[0:nextblocksize])'),
("m16",'rb.desc.writePointer = wAfter','rb.desc.writePointer = w + uint64(len(data))'),
("m17",'dataWraps := wAfter/cap > w/cap','dataWraps := wAfter/cap < w/cap'),
("m18",'if newRp%stride > 0 {','if newRp%stride > 1 {'),
("m19",'return rb.Read(chunksize * nchunks)','return rb.Read(chunksize*nchunks + 1)'),
("m20",'if dataWraps && bytesRead > len(data) {','if !dataWraps && bytesRead > len(data) {'),
("m21",'rawend = cap\n\t}\n\tdata = rb.raw','rawend = cap - 1\n\t}\n\tdata = rb.raw'),
("m22",'if dataWraps && bytesRead > len(data) {','if dataWraps && bytesRead > len(data)+1 {'),
]
s=open('/tmp/c18m/orig.go').read()
for name,old,new in muts:
    assert s.count(old)>=1,(name,old)
    s2=s.replace(old,new,1)
    for d,t in (('a',s),('b',s2)):
        os.makedirs('/tmp/c18m/%s/ringbuffer'%d,exist_ok=True)
        open('/tmp/c18m/%s/ringbuffer/ringbuffer.go'%d,'w').write(t)
    d=subprocess.run(['diff','-u','--label','a/ringbuffer/ringbuffer.go','--label','b/ringbuffer/ringbuffer.go','a/ringbuffer/ringbuffer.go','b/ringbuffer/ringbuffer.go'],cwd='/tmp/c18m',capture_output=True,text=True).stdout
    open('/tmp/c18m/%s.diff'%name,'w').write(d)
print(len(muts))
